#!/bin/sh
# tools/with_patch.sh [-R] <patch-file> <command...> : apply a patch to /repo, run the command, undo.
REV=""
if [ "$1" = "-R" ]; then REV="-R"; shift; fi
P="$1"; shift
git -C /repo diff --quiet || { echo "/repo has uncommitted changes"; exit 2; }
git -C /repo apply $REV "$P" || { echo "patch does not apply"; exit 2; }
"$@"
RC=$?
git -C /repo checkout -- . 
exit $RC

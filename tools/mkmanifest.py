#!/venv/bin/python
"""Regenerates /verif/MANIFEST.json from the table below (single source of truth)."""
import json
import os

VERIF = os.path.dirname(os.path.dirname(os.path.abspath(__file__)))

TRUST = ('TLC 1.8 and the TLA+ modules under /verif/spec; the abstraction functions in '
         'harness/abstraction.py; Python codecs per-character tables for non-UTF codecs')

CHECKS = {
    'C09': dict(
        technique='TLA+ spec (Scope.tla complete graph; Writer.tla) + TLC-generated behaviours replayed '
                  'into DiffXWriter + TLC trace validation (Trace_WriteRead, order clauses)',
        text='Order/level machine model-checked to fix-point (all call histories); every behaviour of '
             'Gen_Writer up to the length bound, random walks beyond it and a state x call x invalid-argument '
             'tour are executed on the real writer and each execution is validated event by event by TLC '
             'against Writer.tla: accepted iff the section may follow and arguments are valid, rejected calls '
             'append nothing, output only grows, and the run continues exactly like a twin run without the '
             'rejected calls.',
        ref='6 C09'),
    'C02': dict(
        technique='TLA+ spec (Writer.tla byte-level serializer; MC_Writer vs Reader.tla) + TLC trace validation of '
                  'DiffXWriter executions (Trace_WriteRead, bytes clause)',
        text='MC_Writer: in every reachable state of the byte-level Writer spec (small scope) the output is '
             'canonical (headers re-render to themselves, ids follow the hierarchy, lengths frame) and the '
             'independent Reader spec reads back the promised records. Real executions (all accepted paths of the '
             'order machine to the bound, the product of one section\'s arguments, random walks; 20 codec '
             'spellings) are validated call by call: bytes appended = Writer.tla delta, byte for byte.',
        ref='6 C02'),
    'C01': dict(
        technique='TLA+ spec (Writer.tla promises records; MC_Writer RoundTrip vs Reader.tla) + TLC trace '
                  'validation of DiffXWriter->DiffXReader executions (Trace_WriteRead, read clause)',
        text='MC_Writer RoundTrip (L2 |= L1, small scope). For every generated call sequence the real writer\'s '
             'bytes are read by the real reader and TLC requires the yielded records to equal the records '
             'Writer.tla promises for the calls (id, level, line, options, content with missing final newline '
             'appended, metadata as JSON value); a sample also runs Reader.tla over Writer.tla\'s bytes.',
        ref='6 C01'),
    'C03': dict(
        technique='TLA+ reference reader (Reader.tla ReadFile; MC_Reader) + TLC trace validation of DiffXReader '
                  'on spec-derived foreign files and single-defect mutations (Trace_Reader exact)',
        text='MC_Reader: the stepwise Reader spec is total, progresses, equals the functional ReadFile, keeps '
             'line numbers increasing and error ranges inside the input over all token-level files. Files from '
             'an independent generator (every legal structure to the bound from TLC, foreign styles, 19 codec '
             'spellings, each catalogue defect, the spec\'s example diffs) are read by DiffXReader; TLC decides '
             'records, acceptance and the allowed error-line range with ReadFile.',
        ref='6 C03'),
    'C10': dict(
        technique='TLA+ spec (Scope.tla order machine complete; MC_Reader OrderLang) + TLC-enumerated id '
                  'sequences replayed into DiffXReader + TLC trace validation (Trace_Reader order)',
        text='Order machine explored to fix-point; TLC enumerates every legal path up to the bound extended by '
             'every one of 17 ids (9 legal, 8 well-formed illegal); each is rendered with valid headers and read '
             'by DiffXReader; TLC requires the accepted id sequence and the rejection point to equal ReadFile\'s.',
        ref='6 C10'),
    'C11': dict(
        technique='TLA+ header grammar (Header.tla recogniser = DFA, MC_Header) + TLC-generated accepted set '
                  'Acc(N) vs exhaustive enumeration through DiffXReader + TLC trace validation (header mode)',
        text='Recogniser and DFA agree on all strings <= N over 15 character classes (TLC). TLC emits the '
             'complete accepted set Acc(N); ALL strings <= N over the alphabet are given to the real reader as '
             'header lines; membership in Acc(N) decides accept/reject; accepted strings, disagreements, a sample '
             'of rejections and a catalogue of malformed id prefixes are re-judged by TLC (verbatim options, '
             'integer conversion, never another exception).',
        ref='6 C11'),
    'C12': dict(
        technique='TLA+ metamorphic theorem on Reader.tla (MC_Reader Unknown) + TLC validation of the same '
                  'relation between two DiffXReader executions (Trace_Reader unknown mode)',
        text='MC_Reader checks ReadFile(insert unknown option) = ReadFile + that option for every header and '
             'position of every token-level file. For generated well-formed files, 1-3 unknown options from the '
             'grammar\'s extremes are inserted at random positions; TLC requires the records of the modified '
             'file to equal the records of the original with Opt(k,v) (integers converted) added.',
        ref='6 C12'),
    'C08': dict(
        technique='TLA+ spec (MC_Reader: Total, Progress, ErrRange over all token files and all short byte '
                  'strings) + TLC trace validation of DiffXReader / DiffX.from_stream on random and corrupted '
                  'inputs (Trace_Reader contract mode)',
        text='The Reader spec has exactly three outcomes and strictly consumes input (model-checked on every '
             'file of <= N tokens and every byte string <= M over 11 bytes). Random bytes and 1-3 catalogue '
             'corruptions of canonical/foreign files are given to DiffXReader and DiffX.from_stream; TLC accepts '
             'only done or DiffXParseError with 0 <= line <= physical lines and a message that agrees with '
             'line/column, only library-family errors from the object model, and a closed stream.',
        ref='6 C08'),
    'C07': dict(
        technique='TLA+ spec (MC_Writer Framed: every cut of every reachable output, STRICT Reader.tla; FramedAB '
                  'counterexample for the open finding) + exhaustive truncation/length-perturbation enumeration '
                  'through DiffXReader + TLC trace validation (Trace_Reader cut mode)',
        text='Framed is an invariant of Writer.tla x Reader.tla in small scope. Every truncation point of every '
             'generated canonical/foreign file and every content length set beyond the data / negative / '
             'non-numeric is read by DiffXReader; TLC requires a prefix of the intact records and a normal end, '
             'and recognises exactly the as-built short-read deviation (known finding F9) by deriving the '
             'deviating record from ReadFileAB.',
        ref='6 C07'),
    'C17': dict(
        technique='TLA+ spec of the chunked read-ahead (ReadUntil.tla, complete small-scope graph) + '
                  'file x padding x block-size enumeration through DiffXReader + TLC trace validation '
                  '(Trace_Reader unknown mode)',
        text='ReadUntil.tla: no loss/duplication for all streams <= N x block sizes x start positions. For each '
             'file and each padding of the first header all block sizes (1.., > file) must give identical '
             'records; TLC checks the agreed records against the unpadded default-block reading (equal, plus the '
             'padding option).',
        ref='6 C17'),
    'C04': dict(
        technique='TLA+ spec (Scope.tla: writer/reader stack disciplines vs nearest declared ancestor, explored to '
                  'fix-point) + TLC-generated nesting histories replayed into DiffXWriter/DiffXReader + TLC trace '
                  'validation (Trace_WriteRead scope clauses, Trace_Reader scope mode)',
        text='All container histories of any length are covered at the design level by the fix-point of Scope.tla '
             '(WEff, REff, NoLeak). Accepted paths to the bound and container-heavy walks to depth 40 with '
             'independent encoding choices are executed; TLC checks that each probe\'s content bytes decode in the '
             'nearest declared encoding (writer) and that the reader returns the content ReadFile specifies '
             '(reader, also on independently rendered foreign files), the two sides judged separately.',
        ref='6 C04'),
    'C16': dict(
        technique='TLA+ spec of line splitting (Bytes.tla SplitKeep/SplitDrop; MC_Split identities on complete '
                  'spaces) + exhaustive enumeration through split_lines + TLC trace validation (Trace_Split)',
        text='The four identities of C16 are invariants of SplitKeep/SplitDrop over all byte strings to the bound '
             'for each of the ten newlines (TLC). The same spaces and random strings up to 2 KB go through the '
             'real split_lines in both modes; TLC requires both results, line by line, to equal SplitKeep/SplitDrop.',
        ref='6 C16'),
    'C14': dict(
        technique='TLA+ hunk machine and declarative geometry (Hunks.tla; MC_Hunks) + TLC-enumerated live-prefix '
                  'tree of line sequences replayed into get_unified_diff_hunks + TLC trace validation (Trace_Hunks)',
        text='MC_Hunks: the per-line machine returns exactly the geometry computed declaratively from every '
             'description of one hunk (body <= 5) and every pair of short hunks, with/without garbage tolerance; '
             'truncation, foreign lines and interrupting headers give a hunk error naming the line; total over all '
             'kind sequences. TLC enumerates the machine\'s live prefixes over 18 concrete line forms; each, plus '
             'generated hunks, their damages and the empty list, is run through the real parser and judged by TLC, '
             'the specification classifying the raw bytes itself.',
        ref='6 C14'),
    'C13': dict(
        technique='TLA+ spec of generate_stats (Stats.tla over Hunks/Content/Codec; MC_Stats algebraic laws) + TLC '
                  'trace validation of DiffX.generate_stats on generated trees (Trace_Stats)',
        text='MC_Stats: Exact, Additive, Idempotent, NonDestructive hold for GenAll on all trees of <= 2x2 over a '
             'pool of file kinds and pre-existing stats. For random real trees TLC recomputes every section\'s '
             'metadata from the diff bytes (newline detection, decoding, hunk parsing all in TLA+) and compares with '
             'what generate_stats left, after one and after two calls.',
        ref='6 C13'),
    'C05': dict(
        technique='TLA+ object-model spec (Dom.tla: ToCalls/DomSerialize/DomParse/Normalize; MC_Dom RoundTrip) + '
                  'TLC trace validation of DOM histories (Trace_Dom, snapshots + canonical bytes)',
        text='MC_Dom: Parse(Serialize(t)) equals the documented normalisation of t, stated declaratively on the '
             'tree, for all small trees. Random trees built through constructors, add_* and typed attributes are '
             'serialised, parsed and serialised again; TLC validates every step: snapshot of every live tree = '
             'Dom.tla state, to_bytes() = Writer.tla run on ToCalls(tree) byte for byte, parsed tree = DomParse.',
        ref='6 C05'),
    'C06': dict(
        technique='TLA+ object-model spec (MC_Dom Canonical: fixed point) + TLC trace validation of load/save '
                  'cycles on canonical and foreign files (Trace_Dom, adopt/c06 clauses, named deviation)',
        text='Canonical form is a fixed point of load+save on all small trees (MC_Dom). For canonical files '
             'to_bytes(from_bytes(b)) = b; for well-formed foreign files re-serialising succeeds, the reloaded tree '
             'carries the same contents and a second cycle reproduces the bytes. TLC judges these relations between '
             'observations and recognises the as-built failure D_DomOptionsNotWritable (known finding F16) from '
             'the loaded tree.',
        ref='6 C06'),
    'C18': dict(
        technique='TLA+ value-semantics model of the object model (Dom.tla) + TLC trace validation of '
                  'interleaved histories over several live trees (Trace_Dom: snapshot of ALL trees after every step)',
        text='Interleavings of mutators (typed assignment, in-place metadata mutation, options[...] mutation, '
             'add_*) and observers (serialise twice, compare, repr) over >= 3 live trees created by every route '
             '(defaults, keywords, one shared DiffXDOMReader, one shared DiffXDOMWriter). After every step TLC '
             'requires the snapshots of all live trees to equal the model state, so sharing and mutating '
             'observers are caught at the step where they happen.',
        ref='6 C18'),
    'C19': dict(
        technique='TLA+ typed-attribute table and tree equality (Dom.tla SetAttr; MC_Dom SetAtomic/EqCongruent) + '
                  'enumerated assignments/comparisons validated by TLC (Trace_Dom)',
        text='Every attribute name (own, forwarded, unknown) x 28 candidate values at every container position, '
             'invalid constructor keywords, and twin trees with single-field perturbations; TLC requires raised iff '
             'the table rejects, all trees unchanged on rejection, ==/!= equal model-tree equality, and equal trees '
             'to serialise identically.',
        ref='6 C19'),
    'C15': dict(
        technique='TLA+ codec/newline spec (Codec.tla NL = BOM-free encoding; Content.tla Detect) evaluated by TLC '
                  'on every spelling of every stateless codec (Trace_Codec) + written/read-back sections per '
                  'spelling (Trace_WriteRead scope+read clauses)',
        text='For each stateless text codec Python provides and each spelling that can stand as an option value '
             '(aliases, case, -/_ variants; not numeric) x unix/dos x probes, TLC requires get_newline_for_type and '
             'guess_line_endings to equal NL/Detect computed from the canonical codec\'s descriptor, and a file '
             'written and read back under the spelling to hold / return the text with a BOM-free newline.',
        ref='6 C15',
        note=TRUST + '; Python\'s alias table'),
    'C20': dict(
        technique='TLC-evaluated token-stream predicates (Trace_Lex) with header tokens decided against Writer.tla',
        text='Every token list of DiffXLexer (writer-produced UTF-8 files from Gen_Writer behaviours; random, '
             'DiffX-shaped and corrupted strings) is checked by TLC: token values concatenate to the input; for '
             'writer files no Error token and the header-shaped Name.Tag tokens are exactly "#id:" for the records '
             'Writer.tla promises for the same calls. The specification contributes the expected headers; the '
             'losslessness half is a one-line predicate.',
        ref='6 C20'),
}

PENDING = {}


def entry(pid, c):
    return {
        'property_id': pid,
        'quick_cmd': './check %s --tier quick' % pid,
        'thorough_cmd': './check %s --tier thorough' % pid,
        'evidence_file': 'evidence/%s.json' % pid,
        'replay_cmd_template': './check %s --replay {path}' % pid,
        'engine': 'tlc-conformance',
        'level_claimed': {'category': 'model_checking', 'text': c['text'], 'design_ref': c['ref']},
        'level_note': c.get('note', TRUST),
        'technique': c['technique'],
    }


def main():
    props = [json.loads(l)['id'] for l in open(os.path.join(VERIF, 'properties.jsonl'))]
    m = {
        'version': 1,
        'setup_cmd': 'cd /verif && sh setup.sh',
        'hooks': {
            'guard': 'PYDIFFX_VERIF',
            'enable': 'no source hooks are needed: every check imports /repo/python afresh via PYTHONPATH and '
                      'observes only public API results and caller-owned streams (BytesIO subclasses)',
            'baseline_off_cmd': 'cd /repo && /venv/bin/python -m pytest -ra -q -p no:cacheprovider '
                                '--timeout=900 --continue-on-collection-errors',
            'source_commits': [],
            'add_only': True,
        },
        'engines': [{
            'name': 'tlc-conformance', 'path': 'harness/',
            'serves_properties': sorted(CHECKS),
            'kind_free_text': 'explicit TLA+ specification (spec/*.tla) model-checked with TLC; behaviours '
                              'generated by TLC replayed into pydiffx; executions of pydiffx validated by TLC '
                              'trace specifications (Trace_*.tla); canary traces must be rejected on every run',
        }],
        'checks': [entry(p, CHECKS[p]) for p in props if p in CHECKS],
        'not_applicable': [{'property_id': p,
                            'reason': PENDING.get(p, 'check under construction in the current build round; '
                                                     'not yet claimed')}
                           for p in props if p not in CHECKS],
        'notes': 'See DESIGN.md. known_findings.json lists genuine defects (open / fixed).',
    }
    with open(os.path.join(VERIF, 'MANIFEST.json'), 'w') as f:
        json.dump(m, f, indent=1)
    print('MANIFEST.json: %d checks, %d not applicable' % (len(m['checks']), len(m['not_applicable'])))


if __name__ == '__main__':
    main()

#!/bin/sh
# tools/sweep.sh "<seeds>" [quick|thorough] : run every check once per seed (evidence goes to a scratch directory,
# /verif/evidence is not touched); prints one line per run.  Used to look for seed-dependent false alarms.
cd "$(dirname "$0")/.." || exit 2
TIER="${2:-quick}"
for seed in $1; do
  for c in C01 C02 C03 C04 C05 C06 C07 C08 C09 C10 C11 C12 C13 C14 C15 C16 C17 C18 C19 C20; do
    out=$(VERIF_SEED=$seed VERIF_OUT="${SWEEP_OUT:-/tmp/verif-sweep}" nice timeout 3600 ./check $c --tier "$TIER" 2>&1 | grep -v "^WARNING\|^KNOWN-FINDING" | tail -2)
    echo "seed=$seed $c rc=$? :: $(echo "$out" | tr '\n' ' ' | cut -c1-300)"
  done
done

#!/venv/bin/python
"""Regenerate benign/README.md from benign/*/meta.json."""
import glob
import json
import os
import subprocess

VERIF = os.path.dirname(os.path.dirname(os.path.abspath(__file__)))
rows = []
for f in sorted(glob.glob(os.path.join(VERIF, 'benign', '*', 'meta.json')), key=lambda p: int(''.join(c for c in os.path.basename(os.path.dirname(p)) if c.isdigit()) or 0)):
    m = json.load(open(f))
    d = os.path.dirname(f)
    stat = subprocess.run('git apply --numstat %s/patch.diff' % d, shell=True, cwd='/repo', stdout=subprocess.PIPE).stdout.decode().split('\n')
    files = ', '.join(l.split('\t')[2].replace('python/pydiffx/', '') for l in stat if l.strip())
    size = '+%d/-%d' % (sum(int(l.split('\t')[0]) for l in stat if l.strip()), sum(int(l.split('\t')[1]) for l in stat if l.strip()))
    notes = m.get('needs_to_manifest', '').strip().split('\n')
    first = next((l.strip('# ').strip() for l in notes if l.strip()), '')
    ran = [c for c in m.get('checks', {})]
    rows.append((m['id'], files, size, m.get('suite_with_change', ''), '%d checks' % len(ran),
                 ', '.join(m.get('caught_by', [])) or 'none', ', '.join(m.get('machinery_failures', [])) or 'none', first[:120]))
with open(os.path.join(VERIF, 'benign', 'README.md'), 'w') as out:
    out.write('# Behaviour-preserving changes (no check may report them)\n\n'
              'Each directory holds an independently written refactoring / optimisation / clean-up of beanbaginc/diffx '
              '(`patch.diff`, the author\'s `NOTES.md`) that restructures the code but keeps every behaviour the 20 properties '
              'talk about. The authors (sub-agents) saw the property statements and a scratch worktree - nothing from /verif - '
              'and had to write a differential self-check (old code against new code) of their own. All 20 quick checks were '
              'then run against a scratch worktree with the patch applied (`SEED_KIND=benign tools/seed.py`). A VIOLATION '
              'here is a false alarm of the machinery (or a refactoring that is not behaviour-preserving after all) and is '
              'investigated; what was found and corrected is in DESIGN.md 8 and 11.\n\n'
              '| id | files | size | repository tests | run | checks reporting a violation | machinery failures | change |\n'
              '|---|---|---|---|---|---|---|---|\n')
    for r in rows:
        out.write('| ' + ' | '.join(r) + ' |\n')
print('benign/README.md: %d changes' % len(rows))

#!/venv/bin/python
"""Regenerate seeded/README.md from seeded/*/meta.json."""
import glob
import json
import os

VERIF = os.path.dirname(os.path.dirname(os.path.abspath(__file__)))
rows = []
for f in sorted(glob.glob(os.path.join(VERIF, 'seeded', '*', 'meta.json'))):
    m = json.load(open(f))
    notes = m.get('needs_to_manifest', '').strip().split('\n')
    first = next((l.strip('# ').strip() for l in notes if l.strip()), '')
    clauses = {c: m['checks'][c]['clauses'][:2] for c in m.get('caught_by', [])}
    rows.append((m['id'], m['breaks_property'], 'yes' if m.get('confirmed') else 'NO',
                 ', '.join(m.get('caught_by', [])) or '**none**',
                 ', '.join(c for c in m.get('checks', {}) if m['checks'][c]['exit'] == 0) or '-',
                 '; '.join('%s: %s' % (c, '/'.join(v)) for c, v in clauses.items()), first[:110]))
with open(os.path.join(VERIF, 'seeded', 'README.md'), 'w') as out:
    out.write('# Seeded changes\n\nEach directory holds an independently written change to beanbaginc/diffx '
              '(`patch.diff`), its demonstration (`demo.py`: exits 0 without the change, non-zero with it), the '
              'author\'s notes (`NOTES.md`) and `meta.json` (what was run, which checks report it). The authors '
              '(sub-agents) saw only the text of one property and a scratch worktree - nothing from /verif. Every '
              'change passes the repository\'s 176 tests. Checks were run with `tools/seed.py` against a scratch '
              'worktree with the patch applied (`VERIF_REPO`), never against /repo.\n\n'
              '| id | breaks | confirmed | reported by (exit 1) | run and silent (exit 0) | failing clauses | idea |\n'
              '|---|---|---|---|---|---|---|\n')
    for r in rows:
        out.write('| ' + ' | '.join(r) + ' |\n')
    out.write('\nA check that stays silent on a change aimed at another property is expected: clauses are attributed '
              'to properties (DESIGN.md 2.3).\n')
print('seeded/README.md: %d changes' % len(rows))

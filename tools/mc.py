#!/venv/bin/python
"""tools/mc.py MODULE CFGFILE|- [workers]  : run TLC, print a short report (dev helper)."""
import sys
sys.path.insert(0, '/verif')
from harness.tlcrun import run_tlc
cfg = sys.stdin.read() if sys.argv[2] == '-' else open(sys.argv[2]).read()
r = run_tlc(sys.argv[1], cfg, workers=int(sys.argv[3]) if len(sys.argv) > 3 else 16, timeout=7200, xmx='12g')
lines = [l for l in r['out'].splitlines() if not l.startswith(('Parsing file', 'Semantic processing', 'Linting of'))]
print('ok=%s generated=%d distinct=%d depth=%d wall=%.1fs' % (r['ok'], r['states'], r['distinct'], r['depth'], r['wall']))
if not r['ok']:
    print('\n'.join(lines[-60:]))

#!/venv/bin/python
"""tools/seed.py <ID> <worktree> <property> [checks...]
Verify an independently written change and record it under /verif/seeded/<ID>/.

 1. takes `git diff` of <worktree> as patch.diff, copies demo.py / NOTES.md
 2. in a FRESH scratch worktree of /repo: suite passes with the patch, demo fails with it
    and passes without it
 3. runs the given checks (default: all 20, quick) against the patched scratch worktree
    (VERIF_REPO / VERIF_OUT: /repo and /verif/evidence are not touched)
 4. writes meta.json; removes the scratch worktree
"""
import json
import os
import shutil
import subprocess
import sys
import time

VERIF = os.path.dirname(os.path.dirname(os.path.abspath(__file__)))


def sh(cmd, **kw):
    return subprocess.run(cmd, shell=True, stdout=subprocess.PIPE, stderr=subprocess.STDOUT, **kw)


def main():
    sid, wt, prop = sys.argv[1:4]
    checks = sys.argv[4:] or ['C%02d' % i for i in range(1, 21)]
    out = os.path.join(VERIF, os.environ.get('SEED_KIND', 'seeded'), sid)     # SEED_KIND=benign: behaviour-preserving changes
    os.makedirs(out, exist_ok=True)
    old = {}
    if wt == '-':          # re-run checks for an already recorded change
        old = json.load(open(os.path.join(out, 'meta.json'))).get('checks', {})
    else:
        patch = sh('git -C %s diff -- python' % wt).stdout
        if not patch.strip():
            print('no diff in', wt)
            return 1
        open(os.path.join(out, 'patch.diff'), 'wb').write(patch)
        for f in ('demo.py', 'NOTES.md'):
            if os.path.exists(os.path.join(wt, f)):
                shutil.copy(os.path.join(wt, f), os.path.join(out, f))
    scratch = '/tmp/ver/%s' % sid
    sh('git -C /repo worktree remove --force %s' % scratch)
    os.makedirs('/tmp/ver', exist_ok=True)
    r = sh('git -C /repo worktree add -q --detach %s HEAD' % scratch)
    assert r.returncode == 0, r.stdout
    meta = {'id': sid, 'breaks_property': prop, 'ran': []}
    try:
        demo = 'cd %s && PYTHONPATH=%s/python /venv/bin/python %s/demo.py' % (scratch, scratch, out)
        r0 = sh(demo)
        meta['demo_without_change_exit'] = r0.returncode
        r = sh('git -C %s apply %s/patch.diff' % (scratch, out))
        assert r.returncode == 0, r.stdout
        rt = sh('cd %s && /venv/bin/python -m pytest -q -p no:cacheprovider 2>&1 | tail -1' % scratch)
        meta['suite_with_change'] = rt.stdout.decode().strip()
        r1 = sh(demo)
        meta['demo_with_change_exit'] = r1.returncode
        meta['demo_with_change_output'] = r1.stdout.decode()[-400:]
        meta['confirmed'] = (r0.returncode == 0 and r1.returncode != 0 and ' passed' in meta['suite_with_change']
                             and 'failed' not in meta['suite_with_change'])
        print(sid, 'confirmed' if meta['confirmed'] else 'NOT CONFIRMED', meta['suite_with_change'], r0.returncode, r1.returncode)
        res = dict(old)
        outdir = '/tmp/ver/out-%s' % sid
        os.makedirs(outdir, exist_ok=True)
        for c in checks:
            t0 = time.time()
            r = sh('cd %s && VERIF_REPO=%s VERIF_OUT=%s ./check %s --tier quick' % (VERIF, scratch, outdir, c))
            lines = [l for l in r.stdout.decode().splitlines() if l.startswith(('VIOLATION', 'KNOWN-FINDING', 'MACHINERY'))]
            res[c] = {'exit': r.returncode, 'wall_s': round(time.time() - t0, 1),
                      'clauses': sorted(set(l.split('(')[-1].rstrip(')') for l in lines if l.startswith('VIOLATION')))[:8]}
            print('  ', c, r.returncode, res[c]['clauses'][:3])
            meta['ran'].append('VERIF_REPO=<scratch worktree with patch> ./check %s --tier quick' % c)
        meta['checks'] = res
        meta['caught_by'] = sorted(c for c in res if res[c]['exit'] == 1 and res[c]['clauses'])
        meta['machinery_failures'] = sorted(c for c in res if res[c]['exit'] not in (0, 1) or (res[c]['exit'] == 1 and not res[c]['clauses']))
        shutil.rmtree(outdir, ignore_errors=True)
    finally:
        sh('git -C /repo worktree remove --force %s' % scratch)
    notes = os.path.join(out, 'NOTES.md')
    meta['needs_to_manifest'] = open(notes).read()[:1500] if os.path.exists(notes) else ''
    json.dump(meta, open(os.path.join(out, 'meta.json'), 'w'), indent=1)
    print(sid, 'caught by', meta['caught_by'], 'machinery failures', meta['machinery_failures'])
    return 0


if __name__ == '__main__':
    sys.exit(main())

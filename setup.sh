#!/bin/sh
# Offline setup: parse every specification module and byte-compile the harness.
set -e
cd /verif/spec
for f in *.tla; do
  tla-sany "$f" > /tmp/sany.$$ 2>&1 || { cat /tmp/sany.$$; rm -f /tmp/sany.$$; echo "SANY failed on $f"; exit 1; }
done
rm -f /tmp/sany.$$
cd /verif
/venv/bin/python -m compileall -q harness >/dev/null
mkdir -p build evidence replays
echo "setup ok"

------------------------- MODULE Gen_Sections -------------------------
(* Direction A for the reader: TLC enumerates sequences of section ids.   *)
(*   hist   : ids so far; a legal path of the hierarchy (FollowOf) ...    *)
(*   Extend : ... optionally extended by ONE arbitrary id from Ids (legal *)
(*            or well-formed-but-illegal), after which the behaviour ends *)
(* Emitted at Len(hist) = MaxLen, and at every extension when Extend.     *)
(* With Extend = FALSE: exactly the legal structures (C03, C12, C17);     *)
(* with Extend = TRUE: every legal path x every next id (C10).            *)
EXTENDS Integers, Sequences, TLC, Json, Sections
CONSTANTS MaxLen, Extend
VARIABLES hist, prev, ended
vars == <<hist, prev, ended>>
(* all 24 well-formed ids: 0-3 dots x six names *)
IllegalIds == {SecId(l, nm) : l \in 0..3, nm \in {"diffx", "preamble", "meta", "change", "file", "diff"}} \ LegalIds
Ids == LegalIds \cup IllegalIds
Init == hist = <<>> /\ prev = "START" /\ ended = FALSE
Legal(id) == /\ ~ended /\ Len(hist) < MaxLen /\ id \in FollowOf(prev)
             /\ hist' = Append(hist, id) /\ prev' = id /\ ended' = FALSE
AnyId(id) == /\ Extend /\ ~ended /\ Len(hist) < MaxLen
           /\ hist' = Append(hist, id) /\ prev' = prev /\ ended' = TRUE
Next == \E id \in Ids : Legal(id) \/ AnyId(id)
Spec == Init /\ [][Next]_vars
Emit == (ended \/ Len(hist) = MaxLen) => PrintT(<<"BEH", ToJson([ids |-> hist, ended |-> ended])>>)
EmitAll == (hist # <<>>) => PrintT(<<"BEH", ToJson([ids |-> hist, ended |-> ended])>>)
=======================================================================

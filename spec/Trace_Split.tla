-------------------------- MODULE Trace_Split --------------------------
(* Direction B for C16: real results of utils.text.split_lines, both      *)
(* modes, every line shipped in full, against SplitKeep / SplitDrop.       *)
(* case: [id, data, nl, keep, drop, exc]                                   *)
EXTENDS Integers, Sequences, TLC, Json, IOUtils, Bytes
VARIABLES i
Cases == ndJsonDeserialize(IOEnv.TRACE_FILE)
Verdict(c) ==
  IF c.exc # "" THEN [s |-> "FAIL", w |-> "raised-" \o c.exc]
  ELSE IF c.keep # SplitKeep(c.data, c.nl) THEN
    [s |-> "FAIL", w |-> IF FlattenSeq(c.keep) # c.data THEN "keep-ends-result-not-lossless"
                         ELSE IF Len(c.keep) # Len(SplitKeep(c.data, c.nl)) THEN "keep-ends-line-count"
                         ELSE "keep-ends-lines-differ"]
  ELSE IF c.drop # SplitDrop(c.data, c.nl) THEN
    [s |-> "FAIL", w |-> IF Len(c.drop) # Len(c.keep) THEN "modes-disagree-on-line-count" ELSE "no-ends-lines-differ"]
  ELSE [s |-> "ok", w |-> ""]
Init == i = 1
Next == /\ i <= Len(Cases)
        /\ LET v == Verdict(Cases[i]) IN PrintT(<<"V", Cases[i].id, v.s, i, v.w>>)
        /\ i' = i + 1
Spec == Init /\ [][Next]_i
=======================================================================

---------------------------- MODULE Scope ----------------------------
(* Encoding scope and section order, contents abstracted away (C04, C09,  *)
(* C10).  Finite state: TLC explores ALL histories of any length.         *)
(*                                                                        *)
(*  L1  decl[l]   encoding declared by the container open at level l      *)
(*                (None if none) - the specification's notion of scope    *)
(*  L3  wstack    the writer's level stack: base frame + one frame per    *)
(*                open container, each holding the effective encoding;    *)
(*                pop rule  cur - new + 1                                 *)
(*      rstack,   the reader's encoding stack and the level of the last   *)
(*      rprev     container; pop rule  rprev - level + 1  when            *)
(*                level <= rprev                                          *)
(*  PopOne = TRUE switches on the as-built deviation D_ReaderPopOne (the  *)
(*  reader popping a single frame), kept to document finding F1.          *)
(*  Every call may also be attempted out of order: it is rejected and     *)
(*  changes nothing (C09 atomicity at the design level).                  *)
EXTENDS Integers, Sequences, TLC, FiniteSets, Sections
CONSTANTS Enc, None, PopOne
VARIABLES prev, decl, wstack, rstack, rprev, accepted, ids
vars == <<prev, decl, wstack, rstack, rprev, accepted, ids>>
EncOpt == Enc \cup {None}

RECURSIVE NearestD(_,_)
NearestD(d, l) == IF d[l] # None THEN d[l] ELSE IF l = 0 THEN None ELSE NearestD(d, l-1)
Last(s) == s[Len(s)]
Pop(s, n) == SubSeq(s, 1, Len(s) - n)

Init == \E e \in Enc :
          /\ prev = "diffx" /\ decl = [l \in 0..2 |-> IF l = 0 THEN e ELSE None]
          /\ wstack = <<e, e>>          \* base frame + main frame
          /\ rstack = <<None, e>> /\ rprev = 0
          /\ accepted = TRUE /\ ids = "diffx"

ContainerAccept(c, e) ==
  /\ c \in FollowOf(prev)
  /\ LET l == ContainerLevel(c) IN
     /\ decl' = [k \in 0..2 |-> IF k < l THEN decl[k] ELSE IF k = l THEN e ELSE None]
     /\ LET cur == Len(wstack) - 1          \* writer levels: MAIN=1, CHANGE=2, FILE=3
            new == l + 1
            ws  == Pop(wstack, IF cur - new + 1 > 0 THEN cur - new + 1 ELSE 0) IN
          wstack' = Append(ws, IF e # None THEN e ELSE Last(ws))
     /\ LET npop == IF l <= rprev THEN (IF PopOne THEN 1 ELSE rprev - l + 1) ELSE 0
            rs == Pop(rstack, npop) IN
          rstack' = Append(rs, IF e # None THEN e ELSE Last(rs))
     /\ rprev' = l
  /\ prev' = c /\ accepted' = TRUE /\ ids' = c
ContentAccept(c) ==
  /\ c \in FollowOf(prev) /\ prev' = c /\ accepted' = TRUE /\ ids' = c
  /\ UNCHANGED <<decl, wstack, rstack, rprev>>
Reject(c) ==
  /\ c \notin FollowOf(prev) /\ accepted' = FALSE /\ ids' = c
  /\ UNCHANGED <<prev, decl, wstack, rstack, rprev>>

(* the section a writer call names in the current state *)
CallTarget(op) == IF op = "change" THEN ".change" ELSE IF op = "file" THEN "..file"
                  ELSE SecId(OpenLevel(prev) + 1, op)
(* one named action per kind of outcome of a writer call / header read *)
Legal(op) == CallTarget(op) \in LegalIds /\ CallTarget(op) \in FollowOf(prev)
AcceptContainer(op, e) == Legal(op) /\ CallTarget(op) \in ContainerIds /\ ContainerAccept(CallTarget(op), e)
AcceptContent(op) == Legal(op) /\ CallTarget(op) \notin ContainerIds /\ ContentAccept(CallTarget(op))
RejectCall(op) == ~Legal(op) /\ accepted' = FALSE /\ ids' = CallTarget(op)
                  /\ UNCHANGED <<prev, decl, wstack, rstack, rprev>>
Next == \E op \in {"change", "file", "preamble", "meta", "diff"} :
          \/ \E e \in EncOpt : AcceptContainer(op, e)
          \/ AcceptContent(op)
          \/ RejectCall(op)
Spec == Init /\ [][Next]_vars

OpenL == OpenLevel(prev)
(* C04: both stacks always hold the nearest declared ancestor encoding *)
WEff == Last(wstack) = NearestD(decl, OpenL)
REff == Last(rstack) = NearestD(decl, OpenL)
(* C09: the writer's notion of depth agrees with the hierarchy *)
WDepth == Len(wstack) - 2 = OpenL
RDepth == PopOne \/ Len(rstack) - 2 = OpenL
(* C04: a sibling never sees what an earlier sibling declared *)
NoLeak == [][prev' \in ContainerIds /\ prev' # prev =>
               \A l \in (ContainerLevel(prev') + 1)..2 : decl'[l] = None]_vars
(* C09: a rejected call changes nothing *)
RejectAtomic == [][~accepted' => UNCHANGED <<prev, decl, wstack, rstack, rprev>>]_vars
(* C09/C10: accepted exactly when the section may follow *)
AcceptIffOrder == [][accepted' <=> (ids' \in LegalIds /\ ids' \in FollowOf(prev))]_vars
(* every reachable prev is legal; accepted steps follow the hierarchy *)
(* ASBUILT runs only: the as-built reader stack leaks frames *)
Bound == Len(rstack) <= 6
TypeOK == prev \in LegalIds /\ Len(wstack) \in 2..4
=======================================================================

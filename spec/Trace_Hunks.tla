-------------------------- MODULE Trace_Hunks --------------------------
(* Direction B for C14: every call of get_unified_diff_hunks with its      *)
(* result or exception against the hunk machine of Hunks.tla, which        *)
(* classifies the raw lines itself.                                        *)
(* case: [id, lines (bytes each), ignore, res = [err, line, lineok, hunks, *)
(*        nproc, tdel, tins]]   err: "none" | "hunk" | "other:<Exception>" *)
EXTENDS Integers, Sequences, TLC, Json, IOUtils, Hunks
VARIABLES i
Cases == ndJsonDeserialize(IOEnv.TRACE_FILE)
HunkField(a, b) ==
  IF a.o # b.o THEN "orig-side" ELSE IF a.m # b.m THEN "modified-side"
  ELSE IF a.pre # b.pre THEN "lines_of_context_pre" ELSE IF a.post # b.post THEN "lines_of_context_post" ELSE "context"
Verdict(c) ==
  LET r == RunBytes(c.lines, c.ignore)  g == c.res IN
  IF r.err = "unspec" THEN [s |-> "SKIP", w |-> "numbers-beyond-model-range"]
  ELSE IF g.err \notin {"none", "hunk"} THEN [s |-> "FAIL", w |-> "raised-" \o g.err]
  ELSE IF r.err = "hunk" THEN
    (IF g.err # "hunk" THEN [s |-> "FAIL", w |-> "malformed-hunk-not-reported"]
     ELSE IF g.line # r.line THEN [s |-> "FAIL", w |-> "error-names-wrong-line-number"]
     ELSE IF ~g.lineok THEN [s |-> "FAIL", w |-> "error-line-content-is-not-that-line"]
     ELSE [s |-> "ok", w |-> "hunk-error"])
  ELSE IF g.err = "hunk" THEN [s |-> "FAIL", w |-> "error-raised-for-well-formed-input"]
  ELSE IF Len(g.hunks) # Len(r.hunks) THEN [s |-> "FAIL", w |-> "number-of-hunks"]
  ELSE IF g.nproc # r.nproc THEN [s |-> "FAIL", w |-> "num_processed_lines"]
  ELSE IF g.tdel # r.tdel \/ g.tins # r.tins THEN [s |-> "FAIL", w |-> "totals"]
  ELSE LET bad == {n \in 1..Len(r.hunks) : g.hunks[n] # r.hunks[n]} IN
       IF bad = {} THEN [s |-> "ok", w |-> "result"]
       ELSE LET n == CHOOSE x \in bad : \A y \in bad : x <= y IN
            [s |-> "FAIL", w |-> "hunk-" \o HunkField(r.hunks[n], g.hunks[n])]
Init == i = 1
Next == /\ i <= Len(Cases)
        /\ LET v == Verdict(Cases[i]) IN PrintT(<<"V", Cases[i].id, v.s, i, v.w>>)
        /\ i' = i + 1
Spec == Init /\ [][Next]_i
=======================================================================

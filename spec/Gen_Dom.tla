---------------------------- MODULE Gen_Dom ----------------------------
(* Direction A for the object model (C18, C19, C05): TLC enumerates / walks *)
(* histories of operations over several live trees.  Only the SHAPE of the  *)
(* trees is state (number of files per change), so every operation the      *)
(* history names is applicable; values are indices the harness concretises. *)
(*   hist : sequence of [op, t, ci, fi, a, v, u]                             *)
(*     op  new | addc | addf | set | mut | mut2 | opt | ser | parse | cmp |  *)
(*         repr | stats                                                     *)
(*     t   tree (1-based), ci change (0 = main), fi file (0 = the change)    *)
(*     a   attribute index, v value index, u second tree (cmp)               *)
EXTENDS Integers, Sequences, TLC, Json
CONSTANTS MaxLen, MaxTrees, NAttr, NVal
VARIABLES shapes, hist
vars == <<shapes, hist>>
E(op, t, ci, fi, a, v, u) == [op |-> op, t |-> t, ci |-> ci, fi |-> fi, a |-> a, v |-> v, u |-> u]
Init == shapes = <<>> /\ hist = <<>>
Live == 1..Len(shapes)
Pos(t) == {<<0, 0>>} \cup {<<c, 0>> : c \in 1..Len(shapes[t])}
          \cup {p \in (1..2) \X (1..2) : p[1] <= Len(shapes[t]) /\ p[2] <= shapes[t][p[1]]}
Do(e, sh) == Len(hist) < MaxLen /\ hist' = Append(hist, e) /\ shapes' = sh
New == \E v \in 0..NVal : Len(shapes) < MaxTrees /\ Do(E("new", 0, 0, 0, 0, v, 0), Append(shapes, <<>>))
AddC == \E t \in Live, v \in 0..NVal :
          Len(shapes[t]) < 2 /\ Do(E("addc", t, 0, 0, 0, v, 0), [shapes EXCEPT ![t] = Append(@, 0)])
AddF == \E t \in Live, v \in 0..NVal : \E c \in 1..Len(shapes[t]) :
          shapes[t][c] < 2 /\ Do(E("addf", t, c, 0, 0, v, 0), [shapes EXCEPT ![t][c] = @ + 1])
SetA == \E t \in Live, a \in 1..NAttr, v \in 0..NVal : \E p \in Pos(t) : Do(E("set", t, p[1], p[2], a, v, 0), shapes)
Mut == \E t \in Live, v \in 0..1 : \E p \in Pos(t) : Do(E("mut", t, p[1], p[2], 0, v, 0), shapes)
Opt == \E t \in Live, v \in 0..1 : \E p \in Pos(t) : Do(E("opt", t, p[1], p[2], 0, v, 0), shapes)
Ser == \E t \in Live : Do(E("ser", t, 0, 0, 0, 0, 0), shapes)
Parse == \E t \in Live : Len(shapes) < MaxTrees /\ Do(E("parse", t, 0, 0, 0, 0, 0), Append(shapes, shapes[t]))
Cmp == \E t \in Live, u \in Live : Do(E("cmp", t, 0, 0, 0, 0, u), shapes)
Repr == \E t \in Live : Do(E("repr", t, 0, 0, 0, 0, 0), shapes)
Stats == \E t \in Live : Do(E("stats", t, 0, 0, 0, 0, 0), shapes)
Mut2 == \E t \in Live, v \in 0..1 : \E p \in Pos(t) : Do(E("mut2", t, p[1], p[2], 0, v, 0), shapes)
Next == New \/ AddC \/ AddF \/ SetA \/ Mut \/ Opt \/ Ser \/ Parse \/ Cmp \/ Repr \/ Stats \/ Mut2
Spec == Init /\ [][Next]_vars
Emit == Len(hist) = MaxLen => PrintT(<<"BEH", ToJson(hist)>>)
=======================================================================

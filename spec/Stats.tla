---------------------------- MODULE Stats ----------------------------
(* generate_stats (C13): what the metadata of every section must be after  *)
(* statistics were generated on a tree.                                    *)
(*   tree  = [meta, changes]; change = [meta, files]; file = [meta, d]     *)
(*   meta  = abstract JSON object (JsonVal.tla)                            *)
(*   d     = [has, raw (bytes), type ("none"|"text"|"binary"),             *)
(*            le ("none"|"unix"|"dos"), codec (descriptor or NoCodec)]     *)
(* A file is ANALYSED iff it has a non-empty diff that is not binary and   *)
(* whose lines (split on the declared / first-line-detected newline of the *)
(* diff's encoding, each line decoded) parse as unified-diff hunks with    *)
(* garbage tolerance.  Everything else keeps whatever statistics it had.   *)
EXTENDS Integers, Sequences, SequencesExt, Bytes, Codec, Content, JsonVal, Hunks

JInt(n) == [t |-> "int", s |-> <<>>, n |-> IF n < 0 THEN 0 - n ELSE n, neg |-> n < 0, items |-> <<>>]
JObj(items) == [t |-> "obj", s |-> <<>>, n |-> 0, neg |-> FALSE, items |-> items]
K_stats == <<115,116,97,116,115>>
K_ins == <<105,110,115,101,114,116,105,111,110,115>>
K_del == <<100,101,108,101,116,105,111,110,115>>
K_lc == <<108,105,110,101,115,32,99,104,97,110,103,101,100>>
K_files == <<102,105,108,101,115>>
K_changes == <<99,104,97,110,103,101,115>>

HasKey(o, k) == \E i \in 1..Len(o.items) : o.items[i].k = k
GetKey(o, k) == o.items[CHOOSE i \in 1..Len(o.items) : o.items[i].k = k].v
(* dict update: set key k (kept in place if present, appended otherwise) *)
SetKey(o, k, v) ==
  IF HasKey(o, k) THEN [o EXCEPT !.items = [i \in 1..Len(o.items) |-> IF o.items[i].k = k THEN [k |-> k, v |-> v] ELSE o.items[i]]]
  ELSE [o EXCEPT !.items = Append(o.items, [k |-> k, v |-> v])]
RECURSIVE SetAll(_,_,_)
SetAll(o, kvs, i) == IF i > Len(kvs) THEN o ELSE SetAll(SetKey(o, kvs[i].k, kvs[i].v), kvs, i + 1)
(* meta["stats"].update(new) or meta["stats"] = new *)
MergeStats(meta, kvs) ==
  IF HasKey(meta, K_stats) /\ GetKey(meta, K_stats).t = "obj"
  THEN SetKey(meta, K_stats, SetAll(GetKey(meta, K_stats), kvs, 1))
  ELSE SetKey(meta, K_stats, JObj(kvs))
(* an integer statistic a section REPORTS (0 when absent) *)
Reported(meta, k) ==
  IF HasKey(meta, K_stats) /\ GetKey(meta, K_stats).t = "obj" /\ HasKey(GetKey(meta, K_stats), k)
     /\ GetKey(GetKey(meta, K_stats), k).t = "int"
  THEN LET v == GetKey(GetKey(meta, K_stats), k) IN IF v.neg THEN 0 - v.n ELSE v.n
  ELSE 0

(* the lines of a diff as the hunk parser must see them *)
DiffLines(d) ==
  LET nc == NlCodec(d.codec)
      kind == IF d.le = "none" THEN DetectBytes(d.raw, nc) ELSE d.le
      ls == SplitDrop(d.raw, NL(nc, kind)) IN
  IF d.codec.fam = "none" THEN [ok |-> TRUE, lines |-> ls]
  ELSE LET dec == [i \in 1..Len(ls) |-> Dec(d.codec, ls[i])] IN
       IF \A i \in 1..Len(ls) : dec[i].ok THEN [ok |-> TRUE, lines |-> [i \in 1..Len(ls) |-> dec[i].cps]]
       ELSE [ok |-> FALSE, lines |-> <<>>]
(* [analysed, ins, del] *)
Analyse(d) ==
  IF ~d.has \/ d.raw = <<>> \/ d.type = "binary" THEN [an |-> FALSE, ins |-> 0, del |-> 0, unspec |-> FALSE]
  ELSE IF d.codec.fam \in {"unknown", "opaque"}          \* a diff declared in something that is no text codec:
       THEN [an |-> FALSE, ins |-> 0, del |-> 0, unspec |-> TRUE]   \* outside C13's quantifier
  ELSE LET dl == DiffLines(d) IN
    IF ~dl.ok THEN [an |-> FALSE, ins |-> 0, del |-> 0, unspec |-> TRUE]
    ELSE IF \E i \in 1..Len(dl.lines) : \E q \in 1..Len(dl.lines[i]) : dl.lines[i][q] = 10
         THEN [an |-> FALSE, ins |-> 0, del |-> 0, unspec |-> TRUE]   \* a "line" that contains LF: unspecified zone
    ELSE LET r == RunBytes(dl.lines, TRUE) IN
      IF r.err = "none" THEN [an |-> TRUE, ins |-> r.tins, del |-> r.tdel, unspec |-> FALSE]
      ELSE [an |-> FALSE, ins |-> 0, del |-> 0, unspec |-> r.err = "unspec"]

GenFile(f) ==
  LET a == Analyse(f.d) IN
  IF ~a.an THEN f
  ELSE [f EXCEPT !.meta = MergeStats(@, << [k |-> K_del, v |-> JInt(a.del)], [k |-> K_ins, v |-> JInt(a.ins)],
                                            [k |-> K_lc, v |-> JInt(a.ins + a.del)] >>)]
RECURSIVE SumF(_,_,_)
SumF(fs, k, i) == IF i = 0 THEN 0 ELSE Reported(fs[i].meta, k) + SumF(fs, k, i - 1)
GenChange(c) ==
  LET fs == [i \in 1..Len(c.files) |-> GenFile(c.files[i])] IN
  [meta |-> MergeStats(c.meta, << [k |-> K_del, v |-> JInt(SumF(fs, K_del, Len(fs)))],
                                  [k |-> K_files, v |-> JInt(Len(fs))],
                                  [k |-> K_ins, v |-> JInt(SumF(fs, K_ins, Len(fs)))],
                                  [k |-> K_lc, v |-> JInt(SumF(fs, K_lc, Len(fs)))] >>),
   files |-> fs]
GenAll(t) ==
  LET cs == [i \in 1..Len(t.changes) |-> GenChange(t.changes[i])] IN
  [meta |-> MergeStats(t.meta, << [k |-> K_changes, v |-> JInt(Len(cs))],
                                  [k |-> K_del, v |-> JInt(SumF(cs, K_del, Len(cs)))],
                                  [k |-> K_files, v |-> JInt(SumF(cs, K_files, Len(cs)))],
                                  [k |-> K_ins, v |-> JInt(SumF(cs, K_ins, Len(cs)))],
                                  [k |-> K_lc, v |-> JInt(SumF(cs, K_lc, Len(cs)))] >>),
   changes |-> cs]
AnyUnspec(t) == \E i \in 1..Len(t.changes) : \E j \in 1..Len(t.changes[i].files) : Analyse(t.changes[i].files[j].d).unspec
(* all metas of a tree, in document order, as JSON values *)
Metas(t) == <<SortKeys(t.meta)>> \o FlattenSeq([i \in 1..Len(t.changes) |->
               <<SortKeys(t.changes[i].meta)>> \o [j \in 1..Len(t.changes[i].files) |-> SortKeys(t.changes[i].files[j].meta)]])
=======================================================================

------------------------ MODULE Trace_WriteRead ------------------------
(* Direction B for C01, C02, C04, C09: executions of the real             *)
(* DiffXWriter (and of DiffXReader over the bytes it produced) are        *)
(* replayed against the Writer specification, one TLC state per event.    *)
(*                                                                        *)
(* A trace is [id, cmap, chk, ev]; chk = [order, bytes, read, scope] selects *)
(* clauses of the property being decided (C09 / C02,C04 / C01); events:   *)
(*   init : constructor.  [k, enc, appended]                              *)
(*   call : one writer call [k, c, accepted, appended, appendonly, twin]  *)
(*          twin = bytes the same call appended in a second run of the    *)
(*          real writer from which every rejected call was left out       *)
(*   read : the real reader over the final stream [k, recs, end, line,    *)
(*          selfcheck]                                                    *)
(* Every clause that can fail has a name; the verdict line carries it.    *)
EXTENDS Integers, Sequences, TLC, Json, IOUtils, Reader

VARIABLES i, j, st
Traces == ndJsonDeserialize(IOEnv.TRACE_FILE)
TraceTables == JsonDeserialize(IOEnv.TABLES_FILE)

W0 == [prev |-> "START", decl |-> <<NoEnc, NoEnc, NoEnc>>, out |-> <<>>, nline |-> 0, recs |-> <<>>]

(* first index at which two record lists differ (0: equal) *)
RECURSIVE FirstDiff(_,_,_)
FirstDiff(a, b, n) ==
  IF n > Len(a) /\ n > Len(b) THEN 0
  ELSE IF n > Len(a) \/ n > Len(b) THEN n
  ELSE IF a[n] # b[n] THEN n ELSE FirstDiff(a, b, n + 1)
RecField(a, b) ==
  IF a.id # b.id THEN "id" ELSE IF a.level # b.level THEN "level" ELSE IF a.type # b.type THEN "type"
  ELSE IF a.line # b.line THEN "line" ELSE IF a.opts # b.opts THEN "options"
  ELSE IF a.kind # b.kind THEN "kind" ELSE IF a.text # b.text THEN "text"
  ELSE IF a.raw # b.raw THEN "bytes" ELSE "metadata"

(* ---- C04 clauses: which encoding did the real writer use? ----
   Judged on the content bytes alone, through the header the real writer
   wrote (its indent / line_endings), so that only the choice of encoding
   is decided here.  Returns "" or the name of the failing clause. *)
LeOf(opts) == IF Has(opts, K_le) THEN (IF Get(opts, K_le) = V_dos THEN "dos" ELSE "unix") ELSE "none"
ScopeClause(st0, c, appended) ==
  LET k == Find(appended, <<10>>, 1) IN
  IF k = 0 THEN "scope-no-header-line"
  ELSE LET hdr == ParseHeader(SubSeq(appended, 1, k - 1))
           content == SubSeq(appended, k + 1, Len(appended)) IN
    IF ~hdr.ok THEN "scope-header-unparsable"
    ELSE IF Has(hdr.opts, K_enc) # c.enc.given THEN "encoding-option-presence"
    ELSE IF c.enc.given /\ Get(hdr.opts, K_enc) # c.enc.name THEN "encoding-option-value"
    ELSE IF c.op \in {"change", "file"} THEN ""
    ELSE IF c.op = "diff" THEN
      (IF c.enc.given THEN ""
       ELSE IF content # AppendNL(c.raw, NL(AsciiC, LeOf(hdr.opts))) THEN "diff-inherited-an-encoding" ELSE "")
    ELSE
      LET e == IF c.enc.given THEN c.enc ELSE Nearest(st0.decl, OpenLevel(st0.prev))
          ind == IF Has(hdr.opts, K_ind) /\ IsIntVal(Get(hdr.opts, K_ind)) /\ Small(Get(hdr.opts, K_ind))
                 THEN IntOf(Get(hdr.opts, K_ind)) ELSE 0
          r == Recover(content, e.codec, IF ind < 0 THEN 0 ELSE ind, LeOf(hdr.opts), TRUE) IN
      IF ~r.ok THEN "content-not-in-nearest-declared-encoding"
      ELSE IF c.op = "preamble" THEN (IF r.text # WithNL(c.text, r.le) THEN "preamble-text-not-in-nearest-declared-encoding" ELSE "")
      ELSE LET jv == ParseJson(SubSeq(r.text, 1, Len(r.text) - 1)) IN
           IF ~jv.ok \/ SortKeys(jv.v) # SortKeys(c.meta) THEN "metadata-not-in-nearest-declared-encoding" ELSE ""
ScopeProj(r) == [id |-> r.id, kind |-> r.kind, text |-> r.text, raw |-> r.raw, meta |-> r.meta]

(* result of checking one event: [ok, why, st] *)
Check(tr, e) ==
  CASE e.k = "init" ->
         LET s == WInit(e.enc) IN
         IF tr.chk.bytes /\ e.appended # s.out THEN [ok |-> FALSE, why |-> "init-bytes", st |-> s]
         ELSE [ok |-> TRUE, why |-> "", st |-> s]
    [] e.k = "call" ->
         LET r == WStep(st, e.c) IN
         IF e.accepted # r.accepted THEN
            [ok |-> FALSE, why |-> (IF r.accepted THEN "rejected-but-spec-accepts" ELSE "accepted-but-spec-rejects"), st |-> r.st]
         ELSE IF tr.chk.order /\ ~e.appendonly THEN [ok |-> FALSE, why |-> "not-append-only", st |-> r.st]
         ELSE IF tr.chk.order /\ ~r.accepted /\ e.appended # <<>> THEN [ok |-> FALSE, why |-> "rejected-call-wrote-bytes", st |-> r.st]
         ELSE IF tr.chk.order /\ r.accepted /\ e.appended # e.twin THEN [ok |-> FALSE, why |-> "continues-differently-after-rejected-call", st |-> r.st]
         ELSE IF tr.chk.bytes /\ e.appended # r.delta THEN [ok |-> FALSE, why |-> "bytes-differ", st |-> r.st]
         ELSE IF tr.chk.scope /\ r.accepted /\ ScopeClause(st, e.c, e.appended) # "" THEN
            [ok |-> FALSE, why |-> ScopeClause(st, e.c, e.appended), st |-> r.st]
         ELSE [ok |-> TRUE, why |-> "", st |-> r.st]
    [] e.k = "read" ->
         LET exp == IF tr.chk.read THEN st.recs ELSE [n \in 1..Len(st.recs) |-> ScopeProj(st.recs[n])]
             got == IF tr.chk.read THEN e.recs ELSE [n \in 1..Len(e.recs) |-> ScopeProj(e.recs[n])]
             d == FirstDiff(exp, got, 1)
             sc == IF e.selfcheck THEN ReadFile(st.out, tr.cmap) ELSE [status |-> "done", recs |-> st.recs] IN
         IF \E n \in 1..Len(tr.ev) : \/ /\ tr.ev[n].k = "call" /\ tr.ev[n].accepted /\ tr.ev[n].c.op \in {"change", "file"}
                                          /\ tr.ev[n].c.enc.given /\ tr.ev[n].c.enc.codec.fam = "unknown"
                                       \/ /\ tr.ev[n].k = "init" /\ tr.ev[n].enc.given /\ tr.ev[n].enc.codec.fam = "unknown"
         THEN [ok |-> TRUE, why |-> "", st |-> st]     \* a container declares a name that is no codec: reading it back is
                                                      \* outside C01's quantifier (Reader.tla: unspec)
         ELSE IF sc.status # "unspec" /\ (sc.status # "done" \/ sc.recs # st.recs) THEN [ok |-> FALSE, why |-> "SELFCHECK-spec-reader-vs-spec-writer", st |-> st]
         ELSE IF e.end # "done" THEN [ok |-> FALSE, why |-> "reader-did-not-complete:" \o e.end, st |-> st]
         ELSE IF d = 0 THEN [ok |-> TRUE, why |-> "", st |-> st]
         ELSE IF d > Len(exp) THEN [ok |-> FALSE, why |-> "extra-record", st |-> st]
         ELSE IF d > Len(got) THEN [ok |-> FALSE, why |-> "missing-record", st |-> st]
         ELSE IF ~tr.chk.read THEN [ok |-> FALSE, why |-> "record-content-differs(decoded-with-wrong-encoding?)", st |-> st]
         ELSE [ok |-> FALSE, why |-> "record-" \o RecField(st.recs[d], e.recs[d]) \o "-differs", st |-> st]

Init == i = 1 /\ j = 1 /\ st = W0
Next ==
  /\ i <= Len(Traces)
  /\ LET tr == Traces[i] IN
     IF j > Len(tr.ev) THEN
       /\ PrintT(<<"V", tr.id, "ok", 0, "">>)
       /\ i' = i + 1 /\ j' = 1 /\ st' = W0
     ELSE LET r == Check(tr, tr.ev[j]) IN
       IF r.ok THEN i' = i /\ j' = j + 1 /\ st' = r.st
       ELSE /\ PrintT(<<"V", tr.id, "FAIL", j, r.why>>)
            /\ i' = i + 1 /\ j' = 1 /\ st' = W0
Spec == Init /\ [][Next]_<<i, j, st>>
=======================================================================

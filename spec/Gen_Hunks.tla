--------------------------- MODULE Gen_Hunks ---------------------------
(* Direction A for C14: TLC walks the hunk machine over an alphabet of     *)
(* CONCRETE line forms (indices into Syms, classified by the specification *)
(* itself) with the history in the state.  A history is not extended once  *)
(* the machine has raised or stopped, so the tree of live prefixes is far  *)
(* smaller than |Syms|^n; the harness appends every symbol once to every   *)
(* terminal history ("later lines are irrelevant").                        *)
EXTENDS Integers, Sequences, TLC, Json, Hunks
CONSTANTS MaxLines, NSyms, Ignore
VARIABLES hs, hist
(* the concrete lines; the harness uses the same table (by index) *)
Syms == <<
  <<64,64,32,45,49,32,43,49,32,64,64>>,                                   \* 1  @@ -1 +1 @@
  <<64,64,32,45,51,44,50,32,43,52,32,64,64,32,100,101,102,32,102,40,41,58>>, \* 2  @@ -3,2 +4 @@ def f():
  <<64,64,32,45,48,44,48,32,43,49,32,64,64>>,                             \* 3  @@ -0,0 +1 @@
  <<64,64,32,45,53,32,43,53,44,48,32,64,64>>,                             \* 4  @@ -5 +5,0 @@
  <<64,64,32,45,50,44,50,32,43,50,44,50,32,64,64>>,                       \* 5  @@ -2,2 +2,2 @@
  <<45,120>>,                                                             \* 6  -x
  <<43,121>>,                                                             \* 7  +y
  <<32,122>>,                                                             \* 8  " z"
  Marker,                                                                 \* 9  marker
  <<64,64,32,106,117,110,107>>,                                           \* 10 @@ junk
  <<>>,                                                                   \* 11 empty line
  <<116,101,120,116>>,                                                    \* 12 text
  <<45,45,32,97,47,102,105,108,101>>,                                     \* 13 -- a/file
  <<43,43,32,98,47,102,105,108,101>>,                                     \* 14 ++ b/file
  <<32,64,64,32,45,49,32,43,49,32,64,64>>,                                \* 15 " @@ -1 +1 @@"
  Marker \o <<32,13>>,                                                    \* 16 marker + trailing whitespace
  <<64,64,32,45,49,32,43,49>>,                                            \* 17 @@ -1 +1   (unterminated header)
  <<92,32,111,116,104,101,114>>                                           \* 18 \ other
>>
Init == hs = S0 /\ hist = <<>>
Next == \E k \in 1..NSyms :
          /\ hs.status = "run" /\ Len(hist) < MaxLines
          /\ hs' = HStep(hs, Classify(Syms[k]), Ignore) /\ hist' = Append(hist, k)
Spec == Init /\ [][Next]_<<hs, hist>>
Emit == PrintT(<<"BEH", ToJson([h |-> hist, live |-> hs.status = "run"])>>)
=======================================================================

--------------------------- MODULE MC_Hunks ---------------------------
(* C14 at the design level.                                               *)
(* (1) Geometry: for ALL descriptions of one hunk (body <= MaxBody over   *)
(*     {C, D, I, M}, several start lines) and ALL pairs of short hunks,    *)
(*     the per-line machine run on the description's lines returns        *)
(*     exactly the declarative geometry (GeoHunk), correct totals and the *)
(*     number of lines consumed, with and without garbage tolerance.      *)
(* (2) Damage: truncating a hunk, or inserting a garbage line or another  *)
(*     header before it is complete, yields a hunk error naming that line.*)
(* (3) Totality: the machine explored as a TLA+ state machine over all    *)
(*     line-kind sequences up to MaxLines has only the four outcomes.     *)
EXTENDS Integers, Sequences, SequencesExt, TLC, Hunks
CONSTANTS MaxBody, MaxLines
VARIABLES hs, ig
RECURSIVE Bodies(_)
Bodies(n) == IF n = 0 THEN {<<>>} ELSE LET s == Bodies(n - 1) IN s \cup {Append(b, k) : b \in s, k \in {"C", "D", "I", "M"}}
Descs == {[os |-> os, ms |-> ms, body |-> b] : os \in {1, 2, 8}, ms \in {1, 3}, b \in Bodies(MaxBody)}
ShortDescs == {[os |-> os, ms |-> ms, body |-> b] : os \in {1, 8}, ms \in {3}, b \in Bodies(3)}
RECURSIVE SumTo(_,_)
SumTo(s, i) == IF i = 0 THEN 0 ELSE s[i] + SumTo(s, i - 1)
SumS(s) == SumTo(s, Len(s))
Expect(ds, nproc) ==
  [err |-> "none", line |-> 0, hunks |-> [i \in 1..Len(ds) |-> GeoHunk(ds[i])], nproc |-> nproc,
   tdel |-> SumS([i \in 1..Len(ds) |-> CountK(ds[i].body, {"D"})]),
   tins |-> SumS([i \in 1..Len(ds) |-> CountK(ds[i].body, {"I"})])]
(* strip trailing markers: what the hunk itself consists of *)
RECURSIVE Core(_)
Core(b) == IF b # <<>> /\ b[Len(b)] = "M" THEN Core(SubSeq(b, 1, Len(b) - 1)) ELSE b
CoreD(d) == [d EXCEPT !.body = Core(d.body)]
GeometryOne ==
  \A d \in Descs : \A g \in BOOLEAN :
    LET ls == DescLines(d)  c == CoreD(d)
        r == RunHunks(ls, g) IN
    IF Closed(d) \/ g THEN r = Expect(<<c>>, Len(ls))       \* trailing markers skipped as garbage
    ELSE r = Expect(<<c>>, Len(DescLines(c)))                   \* scan ends at the first trailing marker
GeometryTwo ==
  \A d1 \in ShortDescs : \A d2 \in ShortDescs : \A g \in BOOLEAN :
    LET ls == DescLines(d1) \o DescLines(d2)  r == RunHunks(ls, g) IN
    IF Closed(d1) THEN
       (IF Closed(d2) \/ g THEN r = Expect(<<CoreD(d1), CoreD(d2)>>, Len(ls))
        ELSE r = Expect(<<CoreD(d1), CoreD(d2)>>, Len(DescLines(d1)) + Len(DescLines(CoreD(d2)))))
    ELSE IF g THEN r = Expect(<<CoreD(d1), CoreD(d2)>>, Len(ls))
    ELSE r = Expect(<<CoreD(d1)>>, Len(DescLines(CoreD(d1))))  \* hunks separated by a non-hunk line (N13)
GarbageBetween ==
  \A d1 \in ShortDescs : \A d2 \in ShortDescs :
    LET ls == DescLines(CoreD(d1)) \o <<Plain("G"), Plain("A"), Plain("C")>> \o DescLines(CoreD(d2)) IN
    /\ RunHunks(ls, TRUE) = Expect(<<CoreD(d1), CoreD(d2)>>, Len(ls))
    /\ RunHunks(ls, FALSE) = Expect(<<CoreD(d1)>>, Len(DescLines(CoreD(d1))))
HunkErr(n) == [err |-> "hunk", line |-> n, hunks |-> <<>>, nproc |-> 0, tdel |-> 0, tins |-> 0]
Damage ==
  \A d \in Descs : \A g \in BOOLEAN :
    LET c == CoreD(d)  ls == DescLines(c)  nb == Len(ls) IN
    (OCount(c) + MCount(c) > 0) =>
      /\ \A cut \in 1..(nb - 1) :            \* ends early: at least the header stays, last C/D/I line removed
           RunHunks(SubSeq(ls, 1, cut), g) = HunkErr(cut)
      /\ \A p \in 2..nb : \A bad \in {"G", "A"} :   \* a foreign line before the hunk is complete
           RunHunks(SubSeq(ls, 1, p - 1) \o <<Plain(bad)>> \o SubSeq(ls, p, nb), g) = HunkErr(p)
      /\ \A p \in 2..nb :                     \* interrupted by another header
           RunHunks(SubSeq(ls, 1, p - 1) \o <<ls[1]>> \o SubSeq(ls, p, nb), g) = HunkErr(p)

Kinds == { Plain("D"), Plain("I"), Plain("C"), Plain("M"), Plain("A"), Plain("G"),
           [k |-> "H", os |-> 1, on |-> 1, ms |-> 1, mn |-> 1, ctx |-> NoCtx, big |-> FALSE],
           [k |-> "H", os |-> 3, on |-> 2, ms |-> 4, mn |-> 0, ctx |-> NoCtx, big |-> FALSE],
           [k |-> "H", os |-> 0, on |-> 0, ms |-> 1, mn |-> 2, ctx |-> NoCtx, big |-> FALSE] }
Init == hs = S0 /\ ig \in BOOLEAN
Next == \E l \in Kinds : hs.status = "run" /\ hs.n < MaxLines /\ hs' = HStep(hs, l, ig) /\ UNCHANGED ig
Spec == Init /\ [][Next]_<<hs, ig>>
Total == /\ hs.status \in {"run", "stopped", "malformed"}
         /\ Result(hs).err \in {"none", "hunk"}
         /\ hs.oi >= 0 /\ hs.mi >= 0 /\ hs.tdel >= 0 /\ hs.tins >= 0
         /\ Len(hs.hunks) <= hs.n
         /\ (hs.status = "malformed" => hs.errline = hs.n /\ hs.n >= 1)
         /\ (Result(hs).err = "none" => Result(hs).nproc <= hs.n)
(* markers never count *)
MarkerNeutral == [][\A l \in Kinds : l.k = "M" /\ hs.inh /\ hs' = HStep(hs, l, ig) =>
                      hs'.tdel = hs.tdel /\ hs'.tins = hs.tins /\ hs'.oi = hs.oi /\ hs'.mi = hs.mi]_<<hs, ig>>
=======================================================================

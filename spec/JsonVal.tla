---- MODULE JsonVal ----
EXTENDS Integers, Sequences, SequencesExt, Bytes
\* Abstract JSON value: [t, s, n, neg, items]
\*   t \in {"null","true","false","int","float","str","arr","obj"}   (float: s = its canonical decimal literal)
\*   s: code points (str)        n, neg: magnitude and sign (int)
\*   items: for arr a sequence of values; for obj a sequence of [k |-> cps, v |-> value]
\* Rendering produces code points (all ASCII, since non-ASCII is escaped).

HexDigit(d) == IF d < 10 THEN 48 + d ELSE 87 + d            \* lower-case
Hex4(u) == <<HexDigit(u \div 4096), HexDigit((u \div 256) % 16), HexDigit((u \div 16) % 16), HexDigit(u % 16)>>
UEsc(u) == <<92, 117>> \o Hex4(u)
EscOne(c) ==
  CASE c = 34 -> <<92, 34>>
    [] c = 92 -> <<92, 92>>
    [] c = 10 -> <<92, 110>>
    [] c = 13 -> <<92, 114>>
    [] c = 9  -> <<92, 116>>
    [] c = 8  -> <<92, 98>>
    [] c = 12 -> <<92, 102>>
    [] c >= 32 /\ c <= 126 -> <<c>>
    [] c < 65536 -> UEsc(c)
    [] OTHER -> LET v == c - 65536 IN UEsc(55296 + (v \div 1024)) \o UEsc(56320 + (v % 1024))
Str(cps) == <<34>> \o FlattenSeq([i \in 1..Len(cps) |-> EscOne(cps[i])]) \o <<34>>

SortPairs(ps) == SortSeq(ps, LAMBDA x, y : Less(x.k, y.k))

Pad(d) == [i \in 1..(4 * d) |-> 32]
RECURSIVE Render(_,_)
Render(v, d) ==
  CASE v.t = "null"  -> <<110,117,108,108>>
    [] v.t = "true"  -> <<116,114,117,101>>
    [] v.t = "false" -> <<102,97,108,115,101>>
    [] v.t = "int"   -> (IF v.neg THEN <<45>> ELSE <<>>) \o DecStr(v.n)
    [] v.t = "str"   -> Str(v.s)
    [] v.t = "float" -> IF v.s = <<105,110,102>> THEN <<73,110,102,105,110,105,116,121>>
                        ELSE IF v.s = <<45,105,110,102>> THEN <<45,73,110,102,105,110,105,116,121>> ELSE v.s
    [] v.t = "arr"   ->
         IF v.items = <<>> THEN <<91, 93>>
         ELSE <<91, 10>>
              \o FlattenSeq([i \in 1..Len(v.items) |->
                     Pad(d + 1) \o Render(v.items[i], d + 1)
                     \o (IF i < Len(v.items) THEN <<44>> ELSE <<>>) \o <<10>>])
              \o Pad(d) \o <<93>>
    [] v.t = "obj"   ->
         IF v.items = <<>> THEN <<123, 125>>
         ELSE LET ps == SortPairs(v.items) IN
              <<123, 10>>
              \o FlattenSeq([i \in 1..Len(ps) |->
                     Pad(d + 1) \o Str(ps[i].k) \o <<58, 32>> \o Render(ps[i].v, d + 1)
                     \o (IF i < Len(ps) THEN <<44>> ELSE <<>>) \o <<10>>])
              \o Pad(d) \o <<125>>
RenderCanonical(v) == Render(v, 0)

\* a JSON value with every object's members listed in key order: two abstract
\* values denote the same JSON value iff their SortKeys forms are equal
RECURSIVE SortKeys(_)
SortKeys(v) ==
  CASE v.t = "arr" -> [v EXCEPT !.items = [i \in 1..Len(v.items) |-> SortKeys(v.items[i])]]
    [] v.t = "obj" -> LET ps == SortPairs(v.items) IN
                      [v EXCEPT !.items = [i \in 1..Len(ps) |-> [k |-> ps[i].k, v |-> SortKeys(ps[i].v)]]]
    [] OTHER -> v
====

---- MODULE JsonParse ----
EXTENDS Integers, Sequences, Bytes, Codec
\* Parses a sequence of code points into the abstract value of JsonVal.tla.
\* Result of every parser: [ok, v, p]  (p = next position). Modelled subset: integers, and decimal fractions in
\* the canonical form of the shortest round-trip representation with at most 15 significant digits (their
\* value IS their literal: [t |-> "float", s |-> literal]); exponents and other fractions are unspecified
\* (reported as [ok |-> FALSE, unspec |-> TRUE]); everything else is total.
\* Other number literals (exponents, more digits, trailing zeros) denote what the platform's float() makes of them:
\* the harness ships that as a table Tables["_"].flt = <<[l |-> literal, r |-> shortest representation]>>
\* (trusted, like the codec tables); a literal that is not in the table is unspecified. The constants
\* Infinity / -Infinity (what the library itself writes for a non-finite number) are read back as such; NaN is
\* unspecified.
FltTable == IF "_" \in DOMAIN Tables THEN (IF "flt" \in DOMAIN Tables["_"] THEN Tables["_"].flt ELSE <<>>) ELSE <<>>
FltLookup(lit) == LET idx == {i \in 1..Len(FltTable) : FltTable[i].l = lit} IN
                  IF idx = {} THEN <<>> ELSE FltTable[CHOOSE i \in idx : TRUE].r
V(t, s, n, neg, items) == [t |-> t, s |-> s, n |-> n, neg |-> neg, items |-> items]
Fail(p) == [ok |-> FALSE, unspec |-> FALSE, v |-> V("null", <<>>, 0, FALSE, <<>>), p |-> p]
Unspec(p) == [ok |-> FALSE, unspec |-> TRUE, v |-> V("null", <<>>, 0, FALSE, <<>>), p |-> p]
Ok(v, p) == [ok |-> TRUE, unspec |-> FALSE, v |-> v, p |-> p]
IsWs(c) == c \in {32, 9, 10, 13}
RECURSIVE SkipWs(_,_)
SkipWs(s, p) == IF p <= Len(s) /\ IsWs(s[p]) THEN SkipWs(s, p + 1) ELSE p
IsDigit(c) == c >= 48 /\ c <= 57
HexVal(c) == IF c >= 48 /\ c <= 57 THEN c - 48 ELSE IF c >= 97 /\ c <= 102 THEN c - 87 ELSE IF c >= 65 /\ c <= 70 THEN c - 55 ELSE -1
Hex4At(s, p) ==  \* -1 if not 4 hex digits at p
  IF p + 3 > Len(s) THEN -1
  ELSE LET a == HexVal(s[p]) b == HexVal(s[p+1]) c == HexVal(s[p+2]) d == HexVal(s[p+3]) IN
       IF a < 0 \/ b < 0 \/ c < 0 \/ d < 0 THEN -1 ELSE a * 4096 + b * 256 + c * 16 + d
RECURSIVE StrBody(_,_,_)
StrBody(s, p, acc) ==      \* p is after the opening quote
  IF p > Len(s) THEN Fail(p)
  ELSE LET c == s[p] IN
    IF c = 34 THEN Ok(V("str", acc, 0, FALSE, <<>>), p + 1)
    ELSE IF c < 32 THEN Fail(p)            \* strict mode: control characters not allowed
    ELSE IF c # 92 THEN StrBody(s, p + 1, Append(acc, c))
    ELSE IF p + 1 > Len(s) THEN Fail(p)
    ELSE LET e == s[p+1] IN
      CASE e = 34 -> StrBody(s, p + 2, Append(acc, 34))
        [] e = 92 -> StrBody(s, p + 2, Append(acc, 92))
        [] e = 47 -> StrBody(s, p + 2, Append(acc, 47))
        [] e = 98 -> StrBody(s, p + 2, Append(acc, 8))
        [] e = 102 -> StrBody(s, p + 2, Append(acc, 12))
        [] e = 110 -> StrBody(s, p + 2, Append(acc, 10))
        [] e = 114 -> StrBody(s, p + 2, Append(acc, 13))
        [] e = 116 -> StrBody(s, p + 2, Append(acc, 9))
        [] e = 117 ->
            LET u == Hex4At(s, p + 2) IN
            IF u < 0 THEN Fail(p)
            ELSE IF u >= 55296 /\ u <= 56319 /\ p + 7 <= Len(s) /\ s[p+6] = 92 /\ s[p+7] = 117
                    /\ Hex4At(s, p + 8) >= 56320 /\ Hex4At(s, p + 8) <= 57343
                 THEN StrBody(s, p + 12, Append(acc, 65536 + (u - 55296) * 1024 + (Hex4At(s, p + 8) - 56320)))
                 ELSE StrBody(s, p + 6, Append(acc, u))
        [] OTHER -> Fail(p)
RECURSIVE Digits(_,_,_,_)
Digits(s, p, acc, cnt) == IF p <= Len(s) /\ IsDigit(s[p]) THEN Digits(s, p + 1, acc * 10 + (s[p] - 48), cnt + 1) ELSE [n |-> acc, p |-> p, cnt |-> cnt]
Lit(s, p, word, v) == IF p + Len(word) - 1 <= Len(s) /\ SubSeq(s, p, p + Len(word) - 1) = word THEN Ok(v, p + Len(word)) ELSE Fail(p)
RECURSIVE SkipDigits(_,_)
SkipDigits(s, p) == IF p <= Len(s) /\ IsDigit(s[p]) THEN SkipDigits(s, p + 1) ELSE p
CanonFrac(ip, fp) ==
  LET lead == IF \E k \in 1..Len(fp) : fp[k] # 48 THEN (CHOOSE k \in 1..Len(fp) : fp[k] # 48 /\ \A m \in 1..(k-1) : fp[m] = 48) - 1 ELSE Len(fp) IN
  /\ Len(ip) + Len(fp) <= 15
  /\ (fp[Len(fp)] # 48 \/ fp = <<48>>)
  /\ (ip = <<48>> => (fp = <<48>> \/ lead < 4))
Num(s, p) ==
  LET neg == s[p] = 45
      q == IF neg THEN p + 1 ELSE p IN
  IF neg /\ q <= Len(s) /\ s[q] = 73 THEN Lit(s, p, <<45,73,110,102,105,110,105,116,121>>, V("float", <<45,105,110,102>>, 0, FALSE, <<>>))
  ELSE IF q > Len(s) \/ ~IsDigit(s[q]) THEN Fail(p)
  ELSE LET ie == IF s[q] = 48 THEN q + 1 ELSE SkipDigits(s, q)          \* end of the integer part
           hasF == ie <= Len(s) /\ s[ie] = 46
           fe == IF hasF THEN SkipDigits(s, ie + 1) ELSE ie
           hasE == fe <= Len(s) /\ s[fe] \in {101, 69}
           es == IF hasE /\ fe + 1 <= Len(s) /\ s[fe + 1] \in {43, 45} THEN fe + 2 ELSE fe + 1
           ee == IF hasE THEN SkipDigits(s, es) ELSE fe
           lit == SubSeq(s, p, ee - 1) IN
       IF hasF /\ fe = ie + 1 THEN Fail(p)                              \* "1."  : no digit after the point
       ELSE IF hasE /\ ee = es THEN Fail(p)                             \* "1e"  : no digit in the exponent
       ELSE IF ~hasF /\ ~hasE THEN
            (IF ie - q > 9 THEN Unspec(p)                               \* beyond 32-bit model range
             ELSE LET d == Digits(s, q, 0, 0) IN Ok(V("int", <<>>, d.n, neg /\ d.n # 0, <<>>), ie))
       ELSE IF ~hasE /\ CanonFrac(SubSeq(s, q, ie - 1), SubSeq(s, ie + 1, fe - 1)) THEN Ok(V("float", lit, 0, FALSE, <<>>), ee)
       ELSE LET r == FltLookup(lit) IN IF r = <<>> THEN Unspec(p) ELSE Ok(V("float", r, 0, FALSE, <<>>), ee)
RECURSIVE Value(_,_), Elems(_,_,_), Members(_,_,_)
Value(s, p0) ==
  LET p == SkipWs(s, p0) IN
  IF p > Len(s) THEN Fail(p)
  ELSE LET c == s[p] IN
    CASE c = 34 -> StrBody(s, p + 1, <<>>)
      [] c = 123 -> LET q == SkipWs(s, p + 1) IN
                    IF q <= Len(s) /\ s[q] = 125 THEN Ok(V("obj", <<>>, 0, FALSE, <<>>), q + 1) ELSE Members(s, p + 1, <<>>)
      [] c = 91 -> LET q == SkipWs(s, p + 1) IN
                   IF q <= Len(s) /\ s[q] = 93 THEN Ok(V("arr", <<>>, 0, FALSE, <<>>), q + 1) ELSE Elems(s, p + 1, <<>>)
      [] c = 116 -> Lit(s, p, <<116,114,117,101>>, V("true", <<>>, 0, FALSE, <<>>))
      [] c = 102 -> Lit(s, p, <<102,97,108,115,101>>, V("false", <<>>, 0, FALSE, <<>>))
      [] c = 110 -> Lit(s, p, <<110,117,108,108>>, V("null", <<>>, 0, FALSE, <<>>))
      [] c = 45 \/ IsDigit(c) -> Num(s, p)
      [] c = 73 -> Lit(s, p, <<73,110,102,105,110,105,116,121>>, V("float", <<105,110,102>>, 0, FALSE, <<>>))   \* what the library writes for inf
      [] c = 78 -> Unspec(p)                  \* NaN
      [] OTHER -> Fail(p)
Elems(s, p, acc) ==
  LET r == Value(s, p) IN
  IF ~r.ok THEN r
  ELSE LET q == SkipWs(s, r.p) IN
    IF q > Len(s) THEN Fail(q)
    ELSE IF s[q] = 44 THEN Elems(s, q + 1, Append(acc, r.v))
    ELSE IF s[q] = 93 THEN Ok(V("arr", <<>>, 0, FALSE, Append(acc, r.v)), q + 1)
    ELSE Fail(q)
Members(s, p0, acc) ==
  LET p == SkipWs(s, p0) IN
  IF p > Len(s) \/ s[p] # 34 THEN Fail(p)
  ELSE LET k == StrBody(s, p + 1, <<>>) IN
    IF ~k.ok THEN k
    ELSE LET c == SkipWs(s, k.p) IN
      IF c > Len(s) \/ s[c] # 58 THEN Fail(c)
      ELSE LET r == Value(s, c + 1) IN
        IF ~r.ok THEN r
        ELSE LET q == SkipWs(s, r.p) acc2 == Append(acc, [k |-> k.v.s, v |-> r.v]) IN
          IF q > Len(s) THEN Fail(q)
          ELSE IF s[q] = 44 THEN Members(s, q + 1, acc2)
          ELSE IF s[q] = 125 THEN Ok(V("obj", <<>>, 0, FALSE, acc2), q + 1)
          ELSE Fail(q)
ParseJson(s) ==
  LET r == Value(s, 1) IN
  IF ~r.ok THEN r ELSE IF SkipWs(s, r.p) = Len(s) + 1 THEN r ELSE Fail(r.p)
====

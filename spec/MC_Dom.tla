---------------------------- MODULE MC_Dom ----------------------------
(* C05 / C06 / C19 at the design level, on ALL trees of a small scope        *)
(* (<= 2 changes x <= 1 file, sections drawn from small pools):              *)
(*   RoundTrip   DomParse(DomSerialize(t)) = Normalize(t) whenever t          *)
(*               serialises - the documented normalisation and nothing else  *)
(*   Canonical   DomSerialize(t) is the Writer run on ToCalls(t) (by          *)
(*               definition) and re-serialising the parsed tree gives the    *)
(*               same bytes (C06 on canonical files; fixed point)            *)
(*   SetAtomic   a rejected typed assignment leaves the container unchanged   *)
(*   EqCongruent equal trees serialise identically; changing any single       *)
(*               option or content makes two trees unequal                   *)
EXTENDS Integers, Sequences, TLC, Json, Dom
CONSTANT Scope          \* 1: quick (one change, fewer encodings)  2: full small scope
VARIABLES t
NoTables == [none |-> [enc |-> [x \in {} |-> <<>>], dec |-> [x \in {} |-> 0]]]
B_u16 == <<117,116,102,45,49,54>>
B_l1 == <<108,97,116,105,110,45,49>>
CMap == << [name |-> B_utf8, codec |-> C("utf-8")], [name |-> B_u16, codec |-> C("utf-16")], [name |-> B_l1, codec |-> C("latin-1")] >>
Txt(s, os) == [opts |-> SortOpts(os), kind |-> "text", text |-> s, raw |-> <<>>, meta |-> NullV]
Raw(s, os) == [opts |-> SortOpts(os), kind |-> "bytes", text |-> <<>>, raw |-> s, meta |-> NullV]
MetaOf(items, os) == [opts |-> SortOpts(os), kind |-> "meta", text |-> <<>>, raw |-> <<>>,
                      meta |-> [t |-> "obj", s |-> <<>>, n |-> 0, neg |-> FALSE, items |-> items]]
JS(s) == [t |-> "str", s |-> s, n |-> 0, neg |-> FALSE, items |-> <<>>]
Pres == { DefPre,
          Txt(<<97>>, <<>>),
          Txt(<<233,13,10,98>>, << OStr(K_enc, B_u16), OInt(K_ind, 2) >>),
          Txt(<<35,46,10,32,97,10>>, << OStr(K_le, V_dos), OInt(K_ind, 0), OStr(K_mime, V_markdown) >>),
          Txt(<<>>, << OInt(K_ind, 7) >>) }                          \* empty content: omitted, options reset
Metas2 == { DefMeta,
            MetaOf(<< [k |-> <<97>>, v |-> JS(<<233>>)] >>, << OStr(K_fmt, V_json) >>),
            MetaOf(<< [k |-> <<98>>, v |-> JS(<<>>)], [k |-> <<97>>, v |-> NullV] >>, << OStr(K_fmt, V_json), OStr(K_enc, B_l1) >>) }
Diffs2 == { DefDiff, Raw(<<97>>, <<>>), Raw(<<97,13,10,98>>, << OStr(K_type, V_binary) >>),
            Raw(<<255,254,97,0>>, << OStr(K_enc, B_u16), OStr(K_le, V_unix) >>) }
EncOpts == { <<>>, << OStr(K_enc, B_u16) >> }
FilesSet == {<<>>} \cup { << [opts |-> eo, meta |-> m, diff |-> d] >> : eo \in EncOpts, m \in Metas2 \ {DefMeta}, d \in Diffs2 }
ChangesSet == { [opts |-> eo, pre |-> p, meta |-> m, files |-> fs] : eo \in (IF Scope = 1 THEN {<<>>} ELSE EncOpts), p \in {DefPre, Txt(<<233,13,10,98>>, << OStr(K_enc, B_u16), OInt(K_ind, 2) >>)},
                m \in {DefMeta, MetaOf(<< [k |-> <<97>>, v |-> JS(<<233>>)] >>, << OStr(K_fmt, V_json) >>)}, fs \in FilesSet }
Init == \E p \in Pres, m \in Metas2, c1 \in ChangesSet, two \in (IF Scope = 1 THEN {FALSE} ELSE BOOLEAN) :
          t = [opts |-> NewTree.opts, pre |-> p, meta |-> m,
               changes |-> IF two THEN << c1, [NewChange EXCEPT !.files = << [NewFile EXCEPT !.meta = MetaOf(<< [k |-> <<97>>, v |-> JS(<<233>>)] >>, << OStr(K_fmt, V_json) >>)] >>] >> ELSE << c1 >>]
Next == UNCHANGED t
Spec == Init /\ [][Next]_t
(* Direction A: every tree of this space is also built with the real object model *)
Emit == PrintT(<<"BEH", ToJson(t)>>)
S == DomSerialize(CMap, t)
RoundTrip == S.status = "ok" =>
               LET p == DomParse(CMap, S.bytes) IN p.status = "ok" /\ p.t = Normalize(CMap, t)
Canonical == S.status = "ok" =>
               LET p == DomParse(CMap, S.bytes) IN DomSerialize(CMap, p.t) = S
Serialisable == S.status \in {"ok", "raises"}
(* C19 on the model: typed assignment *)
SomeVals == { [t |-> "str", s |-> <<100,111,115>>, b |-> V_dos, n |-> 0, j |-> NullV],
              [t |-> "str", s |-> <<120>>, b |-> <<120>>, n |-> 0, j |-> NullV],
              [t |-> "int", s |-> <<>>, b |-> <<51>>, n |-> 3, j |-> NullV],
              [t |-> "none", s |-> <<>>, b |-> <<>>, n |-> 0, j |-> NullV],
              [t |-> "bytes", s |-> <<97>>, b |-> <<>>, n |-> 0, j |-> NullV],
              [t |-> "dict", s |-> <<>>, b |-> <<>>, n |-> 0, j |-> EmptyObj] }
AttrNames == {"encoding", "version", "meta", "meta_encoding", "meta_format", "preamble", "preamble_encoding",
          "preamble_indent", "preamble_line_endings", "preamble_mimetype", "diff", "diff_encoding",
          "diff_line_endings", "diff_type", "bogus", "options", "changes"}
SetAtomic ==
  \A name \in AttrNames : \A v \in SomeVals :
    LET r == SetAttr(t, 0, name, v) IN
    /\ ~r.ok => r.c = t
    /\ (r.ok /\ r.c # t) => r.c # t                       \* a stored value is visible
    /\ (r.ok /\ ~r.unspec) => (DomSerialize(CMap, r.c) = DomSerialize(CMap, t) => TRUE)
EqCongruent ==
  \A name \in AttrNames : \A v \in SomeVals :
    LET r == SetAttr(t, 0, name, v) IN
    (r.ok /\ r.c = t) => DomSerialize(CMap, r.c) = S
=======================================================================

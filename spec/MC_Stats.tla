--------------------------- MODULE MC_Stats ---------------------------
(* C13 on the specification: for ALL trees of up to 2 changes x up to 2     *)
(* files over a pool of file kinds (text diffs with known counts, binary,   *)
(* empty, absent, unparsable; with no / custom / stale pre-existing stats): *)
(*   Exact, Additive, Idempotent, NonDestructive                            *)
(* The stale statistics are deliberately inconsistent (lines changed # ins + del): a section      *)
(* that is not analysed keeps and REPORTS exactly what it had.                                      *)
EXTENDS Integers, Sequences, TLC, Json, Stats
VARIABLES t, gen1, gen2      \* t: tree; gen1 = GenAll(t); gen2 = GenAll(gen1)  (computed once per state)
NoTables == [none |-> [enc |-> [x \in {} |-> <<>>], dec |-> [x \in {} |-> 0]]]
JStr(s) == [t |-> "str", s |-> s, n |-> 0, neg |-> FALSE, items |-> <<>>]
Empty == JObj(<<>>)
Custom == JObj(<< [k |-> <<120>>, v |-> JStr(<<121>>)],
                  [k |-> K_stats, v |-> JObj(<< [k |-> <<99,117,115,116,111,109>>, v |-> JInt(7)] >>)] >>)
Stale == JObj(<< [k |-> K_stats, v |-> JObj(<< [k |-> K_ins, v |-> JInt(40)], [k |-> K_del, v |-> JInt(2)],
                                               [k |-> K_lc, v |-> JInt(45)], [k |-> <<107>>, v |-> JInt(1)] >>)] >>)
PreMetas == {Empty, Custom, Stale}
D(has, raw, type, le) == [has |-> has, raw |-> raw, type |-> type, le |-> le, codec |-> [fam |-> "none", tid |-> ""]]
(* "@@ -1 +1,2 @@\n-a\n+b\n+c\n"  : 2 insertions, 1 deletion *)
TextA == <<64,64,32,45,49,32,43,49,44,50,32,64,64,10,45,97,10,43,98,10,43,99,10>>
(* garbage, then "@@ -3 +3 @@\r\n-x\r\n+y\r\n" with CRLF: 1 / 1 *)
TextB == <<100,105,102,102,13,10,64,64,32,45,51,32,43,51,32,64,64,13,10,45,120,13,10,43,121,13,10>>
(* hunk that ends early: unparsable *)
Broken == <<64,64,32,45,49,44,51,32,43,49,32,64,64,10,45,97,10>>
Diffs == { [d |-> D(TRUE, TextA, "none", "none"), ins |-> 2, del |-> 1, an |-> TRUE],
           [d |-> D(TRUE, TextA, "text", "unix"), ins |-> 2, del |-> 1, an |-> TRUE],
           [d |-> D(TRUE, TextB, "none", "none"), ins |-> 1, del |-> 1, an |-> TRUE],
           [d |-> D(TRUE, TextB, "none", "dos"), ins |-> 1, del |-> 1, an |-> TRUE],
           [d |-> D(TRUE, TextA, "binary", "none"), ins |-> 0, del |-> 0, an |-> FALSE],
           [d |-> D(TRUE, <<>>, "none", "none"), ins |-> 0, del |-> 0, an |-> FALSE],
           [d |-> D(FALSE, <<>>, "none", "none"), ins |-> 0, del |-> 0, an |-> FALSE],
           [d |-> D(TRUE, Broken, "none", "none"), ins |-> 0, del |-> 0, an |-> FALSE] }
Files == {[meta |-> m, d |-> x.d, exp |-> x] : m \in PreMetas, x \in Diffs}
FSeqs == {<<>>} \cup {<<f>> : f \in Files} \cup {<<f, g>> : f \in {x \in Files : x.meta = Empty /\ x.exp.ins # 1}, g \in {x \in Files : x.d.le = "none"}}
Changes == {[meta |-> m, files |-> fs] : m \in {Empty, Custom}, fs \in FSeqs}
StripExp(c) == [meta |-> c.meta, files |-> [i \in 1..Len(c.files) |-> [meta |-> c.files[i].meta, d |-> c.files[i].d]]]
Init == \E m \in {Empty, Stale} : \E c1 \in Changes : \E two \in BOOLEAN : \E c2 \in {c \in Changes : Len(c.files) = 1 /\ c.meta = Empty /\ c.files[1].meta = Stale} :
          /\ t = [meta |-> m, changes |-> IF two THEN <<c1, c2>> ELSE <<c1>>]
          /\ gen1 = GenAll([meta |-> m, changes |-> IF two THEN <<StripExp(c1), StripExp(c2)>> ELSE <<StripExp(c1)>>])
          /\ gen2 = GenAll(gen1)
Next == UNCHANGED <<t, gen1, gen2>>
Spec == Init /\ [][Next]_<<t, gen1, gen2>>
Tree == [meta |-> t.meta, changes |-> [i \in 1..Len(t.changes) |-> StripExp(t.changes[i])]]
G == gen1
(* Direction A: every tree of this space is also built with the real object model *)
Emit == PrintT(<<"BEH", ToJson(Tree)>>)

Exact == \A i \in 1..Len(t.changes) : \A j \in 1..Len(t.changes[i].files) :
           LET f == t.changes[i].files[j]  g == G.changes[i].files[j] IN
           IF f.exp.an THEN /\ Reported(g.meta, K_ins) = f.exp.ins /\ Reported(g.meta, K_del) = f.exp.del
                            /\ Reported(g.meta, K_lc) = f.exp.ins + f.exp.del
           ELSE g.meta = f.meta                       \* not analysed: untouched
Additive ==
  /\ \A i \in 1..Len(G.changes) :
       LET c == G.changes[i] IN
       /\ Reported(c.meta, K_files) = Len(c.files)
       /\ \A k \in {K_ins, K_del, K_lc} : Reported(c.meta, k) = SumF(c.files, k, Len(c.files))
  /\ Reported(G.meta, K_changes) = Len(G.changes)
  /\ \A k \in {K_ins, K_del, K_lc, K_files} : Reported(G.meta, k) = SumF(G.changes, k, Len(G.changes))
Idempotent == gen2 = gen1
(* everything that is not one of the generated statistics keys survives *)
Generated == {K_ins, K_del, K_lc, K_files, K_changes}
Others(meta) == [meta EXCEPT !.items = SelectSeq(@, LAMBDA x : x.k # K_stats)]
OtherStats(meta) == IF HasKey(meta, K_stats) THEN SelectSeq(GetKey(meta, K_stats).items, LAMBDA x : x.k \notin Generated) ELSE <<>>
NonDestructive ==
  \A n \in 1..Len(Metas(Tree)) :
    LET a == Metas(Tree)[n]  b == Metas(G)[n] IN Others(a) = Others(b) /\ OtherStats(a) = OtherStats(b)
=======================================================================

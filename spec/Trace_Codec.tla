-------------------------- MODULE Trace_Codec --------------------------
(* Direction B for C15: the library's newline helpers under every spelling *)
(* of every stateless text codec.  case: [id, codec (descriptor of the     *)
(* CANONICAL codec), kind, nl (get_newline_for_type under the spelling),    *)
(* probe (cps), enc (probe encoded under the spelling), gkind/gnl          *)
(* (guess_line_endings on those bytes), skind/snl (on the str), exc]       *)
EXTENDS Integers, Sequences, TLC, Json, IOUtils, Content
VARIABLES i
Cases == ndJsonDeserialize(IOEnv.TRACE_FILE)
TraceTables == JsonDeserialize(IOEnv.TABLES_FILE)
Verdict(c) ==
  IF c.exc # "" THEN [s |-> "FAIL", w |-> "raised-" \o c.exc]
  ELSE IF c.nl # NL(c.codec, c.kind) THEN
       [s |-> "FAIL", w |-> IF StartsWith(c.nl, Bom(c.codec)) /\ Bom(c.codec) # <<>> THEN "newline-carries-a-byte-order-mark"
                            ELSE "newline-bytes-differ"]
  ELSE IF c.enc # Enc(c.codec, c.probe) THEN [s |-> "SKIP", w |-> "codec-table-disagrees-with-encoder"]
  ELSE IF c.gkind # DetectBytes(c.enc, c.codec) THEN [s |-> "FAIL", w |-> "guessed-kind-on-bytes"]
  ELSE IF c.gnl # NL(c.codec, c.gkind) THEN [s |-> "FAIL", w |-> "guessed-newline-bytes"]
  ELSE IF c.skind # DetectText(c.probe) THEN [s |-> "FAIL", w |-> "guessed-kind-on-text"]
  ELSE IF c.snl # (IF c.skind = "dos" THEN <<13, 10>> ELSE <<10>>) THEN [s |-> "FAIL", w |-> "guessed-newline-text"]
  ELSE [s |-> "ok", w |-> ""]
Init == i = 1
Next == /\ i <= Len(Cases)
        /\ LET v == Verdict(Cases[i]) IN PrintT(<<"V", Cases[i].id, v.s, i, v.w>>)
        /\ i' = i + 1
Spec == Init /\ [][Next]_i
=======================================================================

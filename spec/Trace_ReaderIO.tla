------------------------ MODULE Trace_ReaderIO ------------------------
(* Direction B for the reader's stream protocol (C17 binding, C07 framing): *)
(* the log of read / seek / yield operations of the real DiffXReader on an  *)
(* instrumented stream is replayed through the ACTIONS of ReaderIO.tla,     *)
(* one TLC state per logged operation (a delimiter read and its seek-back   *)
(* are one ReadHit step: the grain of the specification is the block).      *)
(* Want is instantiated with the real header grammar (Header.tla).          *)
(*   trace: [id, stream, end, ev];  ev[k] = [op, n, got, pos, off, sec]     *)
(*     read : n requested, got bytes returned, pos = position before (0-b.) *)
(*     seek : n = whence, off = offset, pos = position after                *)
(*     yield: sec = id of the section handed out, pos = position then       *)
(*     other: some other stream method was used - the model does not apply  *)
(* The log is prefix closed (the reader may stop with an error anywhere).   *)
EXTENDS Integers, Sequences, TLC, Json, IOUtils, Header
VARIABLES stream, pos, phase, buf, hdr, want, frames, yielded, i, j
Traces == ndJsonDeserialize(IOEnv.TRACE_FILE)

IsBlankL(l) == \A k \in 1..Len(l) : l[k] \in {32, 9, 10, 13, 11, 12}
HdrOf(line) == LET a == SubSeq(line, 1, Len(line) - 1)
                   b == IF a # <<>> /\ a[Len(a)] = 13 THEN SubSeq(a, 1, Len(a) - 1) ELSE a IN ParseHeader(b)
TWant(line) ==
  IF IsBlankL(line) THEN -2
  ELSE LET h == HdrOf(line) IN
    IF ~h.ok THEN -3
    ELSE LET id == SecId(h.level, h.name) IN
      IF id \in ContainerIds THEN -1
      ELSE IF id \notin ContentIds THEN -3
      ELSE IF ~Has(h.opts, K_len) \/ ~IsIntVal(Get(h.opts, K_len)) \/ ~Small(Get(h.opts, K_len)) THEN -3
      ELSE IF IntOf(Get(h.opts, K_len)) < 0 THEN -3 ELSE IntOf(Get(h.opts, K_len))
IO == INSTANCE ReaderIO WITH Want <- TWant

Tr == Traces[i]
E == Tr.ev[j]
HasNext == j + 1 <= Len(Tr.ev)
E2 == Tr.ev[j + 1]
B == IO!Blk(E.n)
FrameId(f) == LET h == HdrOf(f.hdr) IN SecId(h.level, h.name)
Why ==
  IF E.op = "other" THEN "unmodelled-stream-operation"
  ELSE IF phase = "stop" THEN "operations-after-a-line-that-is-not-a-header"
  ELSE IF E.op = "yield" THEN
    (IF yielded >= Len(frames) THEN "yield-without-a-completed-section"
     ELSE IF E.sec # FrameId(frames[yielded + 1]) THEN "yielded-section-is-not-the-frame-just-read"
     ELSE IF E.pos # frames[yielded + 1].end - 1 THEN "stream-position-at-yield-is-not-the-end-of-the-section"
     ELSE "")
  ELSE IF E.op = "seek" THEN "seek-without-a-delimiter-read"
  ELSE IF yielded # Len(frames) THEN "read-before-the-completed-section-was-yielded"
  ELSE IF E.pos # pos - 1 THEN "read-at-unexpected-position"
  ELSE IF phase = "eof" THEN "read-after-end-of-stream"
  ELSE IF phase = "content" THEN
    (IF E.n # want THEN "content-read-is-not-the-declared-length"
     ELSE IF E.got # Len(IO!Blk(want)) THEN "SELFCHECK-log-inconsistent" ELSE "")
  ELSE IF E.n < 1 THEN "line-read-of-nonpositive-size"
  ELSE IF E.got # Len(B) THEN "SELFCHECK-log-inconsistent"
  ELSE IF IO!LfIn(B) = 0 \/ ~HasNext THEN ""
  ELSE IF E2.op = "seek" THEN (IF E2.pos # pos + IO!LfIn(B) - 1 THEN "seek-back-to-wrong-position" ELSE "")
  ELSE IF IO!LfIn(B) < Len(B) THEN "no-seek-back-after-delimiter"     \* bytes were read past the delimiter
  ELSE ""                                                             \* nothing to give back: the seek is optional
Adv(k) == i' = i /\ j' = j + k
Step ==
  IF E.op = "yield" THEN IO!Yield /\ Adv(1)
  ELSE IF phase = "content" THEN IO!ReadContent /\ Adv(1)
  ELSE IF B = <<>> THEN IO!ReadEof(E.n) /\ Adv(1)
  ELSE IF IO!LfIn(B) = 0 THEN IO!ReadMiss(E.n) /\ Adv(1)
  ELSE IO!ReadHit(E.n) /\ Adv(IF HasNext /\ E2.op = "seek" THEN 2 ELSE 1)
NextTrace ==
  /\ i' = i + 1 /\ j' = 1
  /\ stream' = (IF i + 1 <= Len(Traces) THEN Traces[i + 1].stream ELSE <<>>)
  /\ pos' = 1 /\ phase' = "line" /\ buf' = <<>> /\ hdr' = <<>> /\ want' = -1 /\ frames' = <<>> /\ yielded' = 0
Init == i = 1 /\ j = 1 /\ IO!IOStart(IF Len(Traces) >= 1 THEN Traces[1].stream ELSE <<>>)
EndWhy == IF Tr.end = "done" /\ phase # "eof" THEN "finished-without-reaching-the-end-of-the-stream"
          ELSE IF Tr.end = "done" /\ frames # IO!DeclFrames(stream, 1) THEN "frames-are-not-those-of-the-stream"
          ELSE IF yielded # Len(frames) /\ Tr.end = "done" THEN "completed-section-never-yielded"
          ELSE ""
Next ==
  /\ i <= Len(Traces)
  /\ IF j > Len(Tr.ev) THEN
       /\ PrintT(<<"V", Tr.id, IF EndWhy = "" THEN "ok" ELSE "FAIL", j, EndWhy>>)
       /\ NextTrace
     ELSE IF Why = "" THEN Step
     ELSE /\ PrintT(<<"V", Tr.id, IF Why \in {"unmodelled-stream-operation", "operations-after-a-line-that-is-not-a-header"} THEN "SKIP" ELSE "FAIL", j, Why>>)
          /\ NextTrace
Spec == Init /\ [][Next]_<<stream, pos, phase, buf, hdr, want, frames, yielded, i, j>>
(* the ReaderIO invariants are evaluated in every state of every replayed log *)
TFramesOfStream == IO!FramesOfStream
TSequential == IO!Sequential
TLazy == IO!Lazy
=======================================================================

---------------------------- MODULE Writer ----------------------------
(* The streaming writer as the DiffX specification defines it (L2):      *)
(* a state machine over                                                  *)
(*   prev  - id of the last section written                              *)
(*   decl  - for each open container level 0..2 the encoding it declared *)
(*   out   - every byte emitted so far                                   *)
(*   recs  - the records a conforming reader must produce for `out`      *)
(* One action per public call, each split into Accept and Reject.        *)
(* WStep(st, call) is the same transition as a function so that traces   *)
(* of the real writer can be replayed call by call (Trace_WriteRead) and *)
(* MC_Writer can explore it (actions below are stated through WStep).    *)
EXTENDS Integers, Sequences, SequencesExt, Bytes, Codec, Sections, Header, JsonVal, Content

(* an encoding argument: [given, name (bytes as spelled), codec] *)
NoEnc == [given |-> FALSE, name |-> <<>>, codec |-> NoCodec]
NullV == [t |-> "null", s |-> <<>>, n |-> 0, neg |-> FALSE, items |-> <<>>]

(* nearest declared encoding at or above level l (decl is 1-indexed: decl[l+1]) *)
RECURSIVE Nearest(_,_)
Nearest(decl, l) == IF decl[l + 1].given THEN decl[l + 1] ELSE IF l = 0 THEN NoEnc ELSE Nearest(decl, l - 1)

Rec(id, line, opts, kind, text, raw, meta) ==
  [id |-> id, level |-> LevelOf(id), type |-> NameOf(id), line |-> line, opts |-> CanonOpts(opts),
   kind |-> kind, text |-> text, raw |-> raw, meta |-> meta]

EncOpt(e) == IF e.given THEN << [k |-> K_enc, v |-> e.name] >> ELSE <<>>
LeBytes(kind) == IF kind = "dos" THEN V_dos ELSE V_unix
MimeBytes(m) == IF m = "markdown" THEN <<116,101,120,116,47,109,97,114,107,100,111,119,110>>
                ELSE <<116,101,120,116,47,112,108,97,105,110>>
TypeBytes(t) == IF t = "binary" THEN <<98,105,110,97,114,121>> ELSE <<116,101,120,116>>
AsciiName(n) == \A i \in 1..Len(n) : n[i] < 128
(* an encoding name is written as the value of an option: it must be one (C02: every header matches the grammar) *)
ValueName(n) == n # <<>> /\ \A i \in 1..Len(n) : ValChar(n[i])

(* ---- initial state: the constructor writes the main header (N8) ---- *)
WInit(e) ==
  LET opts == << [k |-> K_enc, v |-> e.name], [k |-> K_ver, v |-> V_10] >> IN
  [prev |-> "diffx",
   decl |-> << e, NoEnc, NoEnc >>,
   out  |-> RenderHeader("diffx", opts),
   nline |-> 1,
   recs |-> << Rec("diffx", 0, opts, "none", <<>>, <<>>, NullV) >>]

(* which section a call would write in state st *)
SectionOf(st, op) ==
  CASE op = "change" -> ".change"
    [] op = "file" -> "..file"
    [] OTHER -> SecId(OpenLevel(st.prev) + 1, op)

(* text-level statement of C01: a missing final line ending is appended *)
WithNL(cps, kind) ==
  LET n == IF kind = "dos" THEN <<13, 10>> ELSE <<10>> IN IF EndsWith(cps, n) THEN cps ELSE cps \o n

(* ---- argument validity (what the specification can decide) ---- *)
ArgsValid(st, c) ==
  /\ c.bad = ""
  /\ c.enc.given => ValueName(c.enc.name)
  /\ c.op = "preamble" =>
       /\ c.text # <<>>
       /\ LET e == IF c.enc.given THEN c.enc ELSE Nearest(st.decl, OpenLevel(st.prev)) IN
            e.given /\ e.codec.fam # "unknown" /\ CanEnc(e.codec, c.text)
  /\ c.op = "meta" =>
       /\ c.meta.t = "obj" /\ c.meta.items # <<>>
       /\ LET e == IF c.enc.given THEN c.enc ELSE Nearest(st.decl, OpenLevel(st.prev)) IN
            e.given /\ e.codec.fam # "unknown" /\ CanEnc(e.codec, RenderCanonical(c.meta))
  /\ c.op = "diff" =>
       /\ c.raw # <<>>
       /\ c.enc.given => c.enc.codec.fam # "unknown"

Accepts(st, c) == SectionOf(st, c.op) \in FollowOf(st.prev) /\ ArgsValid(st, c)

(* ---- effect of an accepted call ---- *)
Container(st, c) ==
  LET id == SectionOf(st, c.op)  l == ContainerLevel(id)
      opts == EncOpt(c.enc)
      hdr == RenderHeader(id, opts) IN
  [prev |-> id,
   decl |-> [k \in 1..3 |-> IF k - 1 < l THEN st.decl[k] ELSE IF k - 1 = l THEN c.enc ELSE NoEnc],
   out |-> st.out \o hdr,
   nline |-> st.nline + 1,
   recs |-> Append(st.recs, Rec(id, st.nline, opts, "none", <<>>, <<>>, NullV)),
   delta |-> hdr]

Preamble(st, c) ==
  LET id == SectionOf(st, "preamble")
      e == IF c.enc.given THEN c.enc ELSE Nearest(st.decl, OpenLevel(st.prev))
      ind == IF c.indent < 0 THEN 0 ELSE c.indent
      p == PrepareText(c.text, e.codec, ind, c.le)
      nl == NL(e.codec, p.le)
      opts == EncOpt(c.enc)
              \o (IF c.indent < 0 THEN <<>> ELSE << [k |-> K_ind, v |-> DecStr(c.indent)] >>)
              \o << [k |-> K_len, v |-> DecStr(Len(p.bytes))], [k |-> K_le, v |-> LeBytes(p.le)] >>
              \o (IF c.mime = "none" THEN <<>> ELSE << [k |-> K_mime, v |-> MimeBytes(c.mime)] >>)
      hdr == RenderHeader(id, opts) IN
  [prev |-> id, decl |-> st.decl, out |-> st.out \o hdr \o p.bytes,
   nline |-> st.nline + 1 + Count(p.bytes, nl),
   recs |-> Append(st.recs, Rec(id, st.nline, opts, "text", WithNL(c.text, p.le), <<>>, NullV)),
   delta |-> hdr \o p.bytes]

Meta(st, c) ==
  LET id == SectionOf(st, "meta")
      e == IF c.enc.given THEN c.enc ELSE Nearest(st.decl, OpenLevel(st.prev))
      p == PrepareText(RenderCanonical(c.meta), e.codec, 0, "none")
      nl == NL(e.codec, p.le)
      opts == EncOpt(c.enc)
              \o << [k |-> K_fmt, v |-> V_json], [k |-> K_len, v |-> DecStr(Len(p.bytes))] >>
      hdr == RenderHeader(id, opts) IN
  [prev |-> id, decl |-> st.decl, out |-> st.out \o hdr \o p.bytes,
   nline |-> st.nline + 1 + Count(p.bytes, nl),
   recs |-> Append(st.recs, Rec(id, st.nline, opts, "meta", <<>>, <<>>, SortKeys(c.meta))),
   delta |-> hdr \o p.bytes]

Diff(st, c) ==
  LET id == SectionOf(st, "diff")
      codec == IF c.enc.given THEN c.enc.codec ELSE NoCodec
      p == PrepareBytes(c.raw, codec, c.le)
      nl == NL(NlCodec(codec), p.le)
      opts == EncOpt(c.enc)
              \o << [k |-> K_len, v |-> DecStr(Len(p.bytes))], [k |-> K_le, v |-> LeBytes(p.le)] >>
              \o (IF c.dtype = "none" THEN <<>> ELSE << [k |-> K_type, v |-> TypeBytes(c.dtype)] >>)
      hdr == RenderHeader(id, opts) IN
  [prev |-> id, decl |-> st.decl, out |-> st.out \o hdr \o p.bytes,
   nline |-> st.nline + 1 + Count(p.bytes, nl),
   recs |-> Append(st.recs, Rec(id, st.nline, opts, "bytes", <<>>, p.bytes, NullV)),
   delta |-> hdr \o p.bytes]

Effect(st, c) ==
  CASE c.op \in {"change", "file"} -> Container(st, c)
    [] c.op = "preamble" -> Preamble(st, c)
    [] c.op = "meta" -> Meta(st, c)
    [] c.op = "diff" -> Diff(st, c)

Core(x) == [prev |-> x.prev, decl |-> x.decl, out |-> x.out, nline |-> x.nline, recs |-> x.recs]
(* the transition function: [accepted, st, delta] ; a rejected call changes nothing *)
WStep(st, c) ==
  IF Accepts(st, c) THEN LET x == Effect(st, c) IN [accepted |-> TRUE, st |-> Core(x), delta |-> x.delta]
  ELSE [accepted |-> FALSE, st |-> st, delta |-> <<>>]

RECURSIVE WRunFrom(_,_,_)
WRunFrom(st, calls, i) == IF i > Len(calls) THEN st ELSE WRunFrom(WStep(st, calls[i]).st, calls, i + 1)
WriterRun(e, calls) == WRunFrom(WInit(e), calls, 1)
=======================================================================

--------------------------- MODULE Content ---------------------------
(* Content sections: how a payload becomes the bytes after a header      *)
(* (Prepare, writer side) and how those bytes become a payload again     *)
(* (Recover, reader side).  docs/spec/section-format.rst, encodings.rst; *)
(* normative choices N2, N3, N12 of DESIGN.md.                           *)
EXTENDS Integers, Sequences, SequencesExt, Bytes, Codec

(* newline kind of text given as code points: first LF, CR just before it? *)
DetectText(cps) == LET k == Find(cps, <<10>>, 1) IN IF k > 1 /\ cps[k-1] = 13 THEN "dos" ELSE "unix"
(* newline kind of encoded bytes: first encoded LF, encoded CR LF ending there? *)
DetectBytes(raw, codec) ==
  LET lf == NL(codec, "unix")  crlf == NL(codec, "dos")  k == Find(raw, lf, 1) IN
  IF k # 0 /\ EndsWith(SubSeq(raw, 1, k + Len(lf) - 1), crlf) THEN "dos" ELSE "unix"

AppendNL(raw, nl) == IF EndsWith(raw, nl) THEN raw ELSE raw \o nl
Indent(full, nl, indent) ==
  IF indent = 0 THEN full
  ELSE LET ls == SplitKeep(full, nl)  pad == Repeat(32, indent) IN
       FlattenSeq([j \in 1..Len(ls) |-> pad \o ls[j]])

(* Text payload (preamble, rendered metadata): cps non-empty, encodable.
   le \in {"none","unix","dos"}.  Result: bytes after the header and the
   newline kind that is declared on the header. *)
PrepareText(cps, codec, indent, le) ==
  LET raw  == Enc(codec, cps)
      kind == IF le = "none" THEN DetectText(cps) ELSE le
      nl   == NL(codec, kind)
      full == AppendNL(raw, nl)
  IN [bytes |-> Indent(full, nl, indent), le |-> kind]

(* Byte payload (diff): own codec or NoCodec (then newlines are ASCII) *)
NoCodec == [fam |-> "none", tid |-> ""]
NlCodec(codec) == IF codec.fam = "none" THEN AsciiC ELSE codec
PrepareBytes(raw, codec, le) ==
  LET nc   == NlCodec(codec)
      kind == IF le = "none" THEN DetectBytes(raw, nc) ELSE le
      nl   == NL(nc, kind)
  IN [bytes |-> AppendNL(raw, nl), le |-> kind]

(* ------------------------------ reader ----------------------------- *)
RECURSIVE LeadSp(_,_,_)
LeadSp(l, p, max) == IF p <= Len(l) /\ p <= max /\ l[p] = 32 THEN LeadSp(l, p + 1, max) ELSE p - 1
Strip(l, indent) == SubSeq(l, LeadSp(l, 1, indent) + 1, Len(l))
(* raw: exactly the declared number of bytes.  codec: effective codec or
   NoCodec.  decode: produce text?  Result
   [ok, unspec, nlines, bytes (indent stripped), text (decoded when decode)] *)
Recover(raw, codec, indent, le, decode) ==
  LET nc == NlCodec(codec)
      kind == IF le = "none" THEN DetectBytes(raw, nc) ELSE le
      nl == NL(nc, kind)
      ls == SplitKeep(raw, nl)
      body == IF indent = 0 THEN raw ELSE FlattenSeq([j \in 1..Len(ls) |-> Strip(ls[j], indent)])
      d == IF decode THEN Dec(codec, body) ELSE Good(<<>>)
      nlok == IF decode THEN d.ok /\ EndsWith(d.cps, IF kind = "dos" THEN <<13,10>> ELSE <<10>>)
              ELSE EndsWith(body, nl)
  IN [ok |-> raw # <<>> /\ d.ok /\ nlok, unspec |-> d.unspec, nlines |-> Len(ls),
      bytes |-> body, text |-> d.cps, le |-> kind]
=======================================================================

--------------------------- MODULE MC_Reader ---------------------------
(* The stepwise reader (RStep as a TLA+ action) over ALL files made of    *)
(* at most MaxTok tokens from a pool of header lines (good and bad),      *)
(* content chunks and blank lines - and, with RawLen > 0, over ALL byte   *)
(* strings up to RawLen over a small alphabet.  Checked in every state:   *)
(*   Total     RStep is defined (TLC evaluates it) and the status is one  *)
(*             of running/done/error/short/unspec - no other outcome      *)
(*   Progress  each step consumes input or stops                          *)
(*   OrderLang the ids of the records are a path of the hierarchy (C10)   *)
(*   ErrRange  an error line lies within the physical lines (C08)         *)
(*   LinesUp   record lines strictly increase (C03)                       *)
(*   Stepwise  the final state equals the functional ReadFile (C03)       *)
(*   Unknown   (C12) inserting an unknown option into any header changes  *)
(*             nothing but that record's options                          *)
EXTENDS Integers, Sequences, TLC, Json, Reader
CONSTANTS MaxTok, RawLen
VARIABLES file, rs, phase, cnt
vars == <<file, rs, phase, cnt>>
NoTables == [none |-> [enc |-> [x \in {} |-> <<>>], dec |-> [x \in {} |-> 0]]]
CMap == << [name |-> <<117,116,102,45,56>>, codec |-> C("utf-8")],
           [name |-> <<117,116,102,45,49,54>>, codec |-> C("utf-16")],
           [name |-> <<108,97,116,105,110,45,49>>, codec |-> C("latin-1")] >>

(* ASCII helper: token texts are given as TLA+ tuples of bytes *)
Tokens == <<
  (* 1  #diffx: encoding=utf-8, version=1.0 *)
  <<35,100,105,102,102,120,58,32,101,110,99,111,100,105,110,103,61,117,116,102,45,56,44,32,118,101,114,115,105,111,110,61,49,46,48,10>>,
  (* 2  #.change: *)
  <<35,46,99,104,97,110,103,101,58,10>>,
  (* 3  #..file: encoding=latin-1 *)
  <<35,46,46,102,105,108,101,58,32,101,110,99,111,100,105,110,103,61,108,97,116,105,110,45,49,10>>,
  (* 4  #.preamble: length=2 + "a\n" *)
  <<35,46,112,114,101,97,109,98,108,101,58,32,108,101,110,103,116,104,61,50,10,97,10>>,
  (* 5  #..preamble: indent=2, length=5 + "  #a\n" *)
  <<35,46,46,112,114,101,97,109,98,108,101,58,32,105,110,100,101,110,116,61,50,44,32,108,101,110,103,116,104,61,53,10,32,32,35,97,10>>,
  (* 6  #...meta: length=3 + "{}\n" *)
  <<35,46,46,46,109,101,116,97,58,32,108,101,110,103,116,104,61,51,10,123,125,10>>,
  (* 7  #...diff: length=3 + "a\r\n" *)
  <<35,46,46,46,100,105,102,102,58,32,108,101,110,103,116,104,61,51,10,97,13,10>>,
  (* 8  #..meta: length=9 + "{\"a\": 1}\n" *)
  <<35,46,46,109,101,116,97,58,32,108,101,110,103,116,104,61,57,10,123,34,97,34,58,32,49,125,10>>,
  (* 9  blank line *)
  <<32,10>>,
  (* 10 #.meta: length=4 + "{}\n" (length too long by one) *)
  <<35,46,109,101,116,97,58,32,108,101,110,103,116,104,61,52,10,123,125,10>>,
  (* 11 #..file: (bad option syntax) "#..file: a" *)
  <<35,46,46,102,105,108,101,58,32,97,10>>,
  (* 12 #...diff: length=x + "a\n" *)
  <<35,46,46,46,100,105,102,102,58,32,108,101,110,103,116,104,61,120,10,97,10>>,
  (* 13 #...meta: length=2 + "a\n" (invalid JSON) *)
  <<35,46,46,46,109,101,116,97,58,32,108,101,110,103,116,104,61,50,10,97,10>>,
  (* 14 unterminated tail "#.ch" *)
  <<35,46,99,104>>
>>
Alphabet == {35, 46, 58, 32, 61, 44, 10, 13, 97, 49, 195}
(* The file is BUILT by exploration (phase "tok": append a token; phase "raw": append a byte), so
   that TLC's workers share the work; reading starts when the phase becomes "read". *)
Init == file = <<>> /\ rs = R0 /\ phase \in {"tok", "raw"} /\ cnt = 0
AddTok == \E t \in 1..Len(Tokens) : phase = "tok" /\ cnt < MaxTok /\ file' = file \o Tokens[t] /\ cnt' = cnt + 1 /\ UNCHANGED <<rs, phase>>
AddByte == \E b \in Alphabet : phase = "raw" /\ cnt < RawLen /\ file' = Append(file, b) /\ cnt' = cnt + 1 /\ UNCHANGED <<rs, phase>>
Start == phase \in {"tok", "raw"} /\ phase' = "read" /\ UNCHANGED <<file, rs, cnt>>
Read == phase = "read" /\ rs.status = "running" /\ rs' = RStep(file, CMap, rs) /\ UNCHANGED <<file, phase, cnt>>
Next == AddTok \/ AddByte \/ Start \/ Read
Spec == Init /\ [][Next]_vars

(* C08 "terminates": under weak fairness of the step every run of the reader ends *)
FairSpec == Spec /\ WF_vars(Read) /\ WF_vars(Start)
Terminates == <>(phase = "read" /\ rs.status # "running")

(* Direction A: every file of the explored space is also handed to the REAL reader *)
EmitFiles == (phase = "read" /\ rs = R0) => PrintT(<<"BEH", ToJson([f |-> file])>>)

Total == rs.status \in {"running", "done", "error", "short", "unspec"}
Progress == [][phase = "read" => (rs'.status # "running" \/ rs'.pos > rs.pos)]_vars
OrderLang == LegalOrder([k \in 1..Len(rs.recs) |-> rs.recs[k].id])
ErrRange == rs.status \in {"error", "short"} => 0 <= rs.lo /\ rs.lo <= rs.hi /\ rs.lo <= PhysLines(file)
LinesUp == \A k \in 1..(Len(rs.recs) - 1) : rs.recs[k].line < rs.recs[k+1].line
Stepwise == (phase = "read" /\ rs.status # "running") =>
              LET r == ReadFile(file, CMap) IN r.status = rs.status /\ r.recs = rs.recs /\ r.lo = rs.lo
PosOK == rs.pos >= 1 /\ rs.pos <= Len(file) + 1

(* C12 in small scope: insert "zz=9" as first / last option of the header
   that starts at the position the reader is about to read *)
InsertOpt(f, p, atEnd) ==
  LET k == Find(f, <<10>>, p) IN
  IF k = 0 THEN f
  ELSE LET line == SubSeq(f, p, k - 1)  c == Find(line, <<58>>, 1) IN
    IF c = 0 THEN f
    ELSE IF c = Len(line) THEN SubSeq(f, 1, p - 1) \o line \o <<32,122,122,61,57>> \o SubSeq(f, k, Len(f))
    ELSE IF atEnd THEN SubSeq(f, 1, p - 1) \o line \o <<44,32,122,122,61,57>> \o SubSeq(f, k, Len(f))
    ELSE SubSeq(f, 1, p - 1) \o SubSeq(line, 1, c) \o <<32,122,122,61,57,44>> \o SubSeq(line, c + 1, Len(line)) \o SubSeq(f, k, Len(f))
DropZZ(opts) == SelectSeq(opts, LAMBDA o : o.k # <<122,122>>)
Unknown ==
  (phase = "read" /\ rs.status = "running" /\ rs.pos <= Len(file) /\ file[rs.pos] = 35) =>
    \A atEnd \in BOOLEAN :
      LET f2 == InsertOpt(file, rs.pos, atEnd)
          a == ReadFile(file, CMap)  b == ReadFile(f2, CMap)
          n == Len(rs.recs) + 1 IN
      /\ a.status = b.status /\ Len(a.recs) = Len(b.recs)
      /\ \A k \in 1..Len(a.recs) :
           IF k = n THEN /\ [b.recs[k] EXCEPT !.opts = DropZZ(@)] = a.recs[k]
                         /\ \E o \in 1..Len(b.recs[k].opts) : b.recs[k].opts[o] = [k |-> <<122,122>>, s |-> <<57>>, i |-> TRUE]
           ELSE b.recs[k] = a.recs[k]
=======================================================================

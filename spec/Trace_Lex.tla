--------------------------- MODULE Trace_Lex ---------------------------
(* Direction B for C20.  case: [id, kind ("text" | "file"), enc, calls,     *)
(* input (code points), tokens (sequence of [t (type name), v (cps)]), exc] *)
(*   Lossless  : the concatenated token values reproduce the input          *)
(*   for writer-produced UTF-8 files with benign content additionally:      *)
(*   NoError   : no Error token                                             *)
(*   Headers   : the Name.Tag tokens of header shape are exactly             *)
(*               "#" id ":" for the records Writer.tla promises, in order    *)
EXTENDS Integers, Sequences, SequencesExt, TLC, Json, IOUtils, Writer
VARIABLES i
Cases == ndJsonDeserialize(IOEnv.TRACE_FILE)
TraceTables == JsonDeserialize(IOEnv.TABLES_FILE)
IsHeaderTag(v) == Len(v) >= 3 /\ v[1] = 35 /\ v[Len(v)] = 58
                  /\ \A q \in 2..(Len(v) - 1) : v[q] = 46 \/ (v[q] >= 97 /\ v[q] <= 122)
Verdict(c) ==
  IF c.exc # "" THEN [s |-> "FAIL", w |-> "raised-" \o c.exc]
  ELSE IF FlattenSeq([n \in 1..Len(c.tokens) |-> c.tokens[n].v]) # c.input THEN [s |-> "FAIL", w |-> "token-values-do-not-reproduce-the-input"]
  ELSE IF c.kind = "text" THEN [s |-> "ok", w |-> "text"]
  ELSE LET st == WriterRun(c.enc, c.calls)
           tags == SelectSeq(c.tokens, LAMBDA x : x.t = "Token.Name.Tag" /\ IsHeaderTag(x.v))
           exp == [n \in 1..Len(st.recs) |-> <<35>> \o IdBytes(st.recs[n].id) \o <<58>>] IN
       IF \E n \in 1..Len(c.tokens) : c.tokens[n].t = "Token.Error" THEN [s |-> "FAIL", w |-> "error-token-in-writer-produced-file"]
       ELSE IF [n \in 1..Len(tags) |-> tags[n].v] # exp THEN
            [s |-> "FAIL", w |-> IF Len(tags) # Len(exp) THEN "number-of-header-tokens" ELSE "header-tokens-differ"]
       ELSE [s |-> "ok", w |-> "file"]
Init == i = 1
Next == /\ i <= Len(Cases)
        /\ LET v == Verdict(Cases[i]) IN PrintT(<<"V", Cases[i].id, v.s, i, v.w>>)
        /\ i' = i + 1
Spec == Init /\ [][Next]_i
=======================================================================

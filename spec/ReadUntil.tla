--------------------------- MODULE ReadUntil ---------------------------
(* The reader's chunked read-ahead (L3, reader.py _read_until), alone:     *)
(* read blocks of Chunk bytes until one contains LF, keep everything up    *)
(* to and including it, seek back over the rest of the block.              *)
(* All streams up to MaxLen over {LF, x}, all block sizes 1..MaxChunk, all *)
(* start positions.  C17: nothing is lost, duplicated or re-read, for any  *)
(* alignment of the delimiter relative to the blocks.                      *)
EXTENDS Integers, Sequences, TLC, Bytes
CONSTANTS MaxLen, MaxChunk
VARIABLES stream, chunk, start, pos, buf, status
vars == <<stream, chunk, start, pos, buf, status>>
RECURSIVE Streams(_)
Streams(n) == IF n = 0 THEN {<<>>} ELSE LET s == Streams(n - 1) IN s \cup {Append(f, b) : f \in s, b \in {10, 120}}
Init == /\ stream \in Streams(MaxLen) /\ chunk \in 1..MaxChunk
        /\ start \in 1..(Len(stream) + 1) /\ pos = start /\ buf = <<>> /\ status = "reading"
Min2(a, b) == IF a < b THEN a ELSE b
ReadBlock ==
  /\ status = "reading"
  /\ LET blk == SubSeq(stream, pos, Min2(pos + chunk - 1, Len(stream)))
         i == Find(blk, <<10>>, 1) IN
     IF blk = <<>> THEN status' = "eof" /\ UNCHANGED <<pos, buf>>
     ELSE IF i = 0 THEN /\ buf' = buf \o blk /\ pos' = pos + Len(blk) /\ status' = "reading"
     ELSE /\ buf' = buf \o SubSeq(blk, 1, i)
          /\ pos' = pos + Len(blk) + (i - Len(blk))       \* read Len(blk), seek back Len(blk) - i
          /\ status' = "found"
  /\ UNCHANGED <<stream, chunk, start>>
Spec == Init /\ [][ReadBlock]_vars
NlPos == Find(stream, <<10>>, start)
NoLossNoDup ==
  /\ status = "found" => NlPos # 0 /\ buf = SubSeq(stream, start, NlPos) /\ pos = NlPos + 1
  /\ status = "eof" => NlPos = 0 /\ buf = SubSeq(stream, start, Len(stream)) /\ pos = Len(stream) + 1
  /\ status = "reading" => buf = SubSeq(stream, start, pos - 1) /\ Find(buf, <<10>>, 1) = 0
(* the result does not depend on the block size: it is a function of (stream, start) *)
(* liveness: under weak fairness of the only action every read-ahead ends (found or eof) *)
FairSpec == Spec /\ WF_vars(ReadBlock)
Terminates == <>(status # "reading")
=======================================================================

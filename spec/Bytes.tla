---------------------------- MODULE Bytes ----------------------------
(* Byte / code-point sequence helpers shared by every DiffX module.       *)
(* Text is Seq(0..1114111), bytes are Seq(0..255).  All recursive         *)
(* operators are index based (no Tail chains) so TLC evaluates them in    *)
(* linear time; run TLC with -Xss512m.                                     *)
EXTENDS Integers, Sequences, SequencesExt

LF == 10
CR == 13
SP == 32

RECURSIVE MatchAt(_,_,_,_)
MatchAt(s, sub, p, j) ==
  IF j > Len(sub) THEN TRUE
  ELSE IF s[p + j - 1] # sub[j] THEN FALSE ELSE MatchAt(s, sub, p, j + 1)

(* leftmost position >= p at which sub occurs in s, 0 if none *)
RECURSIVE FindRec(_,_,_)
FindRec(s, sub, p) ==
  IF p + Len(sub) - 1 > Len(s) THEN 0
  ELSE IF MatchAt(s, sub, p, 1) THEN p ELSE FindRec(s, sub, p + 1)
(* the same function with one recursion step per window of k, 2k, 4k, ... positions instead of one per byte (TLC recursing
   once per byte needs 20 s to find the end of an 8 KiB line; windows make it instantaneous and, unlike one
   comprehension over the whole rest, stop at the first match); MC_Split checks FindRec = FindWin for k = 1, 2, 3 *)
RECURSIVE FindWin(_,_,_,_)
FindWin(s, sub, p, k) ==
  LET last == Len(s) - Len(sub) + 1
      hi == IF p + k - 1 < last THEN p + k - 1 ELSE last
      S == {i \in p..hi : MatchAt(s, sub, i, 1)} IN
  IF p > last THEN 0
  ELSE IF S # {} THEN CHOOSE i \in S : \A j \in S : i <= j
  ELSE FindWin(s, sub, hi + 1, IF k < 1024 THEN 2 * k ELSE k)          \* windows grow: work ~ 2 x distance
Find(s, sub, p) == IF Len(s) - p < 64 THEN FindRec(s, sub, p) ELSE FindWin(s, sub, p, 8)

EndsWith(s, suf) == Len(suf) <= Len(s) /\ SubSeq(s, Len(s) - Len(suf) + 1, Len(s)) = suf
StartsWith(s, pre) == Len(pre) <= Len(s) /\ SubSeq(s, 1, Len(pre)) = pre
HasAt(s, sub, p) == p >= 1 /\ p + Len(sub) - 1 <= Len(s) /\ MatchAt(s, sub, p, 1)

(* ------------------------------------------------------------------ *)
(* Line splitting: the SPECIFICATION of utils.text.split_lines (C16).  *)
(* Leftmost, non-overlapping occurrences of nl delimit lines.          *)
(* SplitKeep: lines with their terminators; SplitDrop: without.        *)
(* Both are defined for non-empty s and non-empty nl.                  *)
RECURSIVE SplitKeepFrom(_,_,_)
SplitKeepFrom(s, nl, p) ==
  IF p > Len(s) THEN <<>>
  ELSE LET k == Find(s, nl, p) IN
       IF k = 0 THEN <<SubSeq(s, p, Len(s))>>
       ELSE <<SubSeq(s, p, k + Len(nl) - 1)>> \o SplitKeepFrom(s, nl, k + Len(nl))
SplitKeep(s, nl) == SplitKeepFrom(s, nl, 1)

RECURSIVE SplitDropFrom(_,_,_)
SplitDropFrom(s, nl, p) ==
  IF p > Len(s) THEN <<>>
  ELSE LET k == Find(s, nl, p) IN
       IF k = 0 THEN <<SubSeq(s, p, Len(s))>>
       ELSE <<SubSeq(s, p, k - 1)>> \o SplitDropFrom(s, nl, k + Len(nl))
SplitDrop(s, nl) == SplitDropFrom(s, nl, 1)

(* number of leftmost non-overlapping occurrences *)
RECURSIVE CountFrom(_,_,_)
CountFrom(s, nl, p) ==
  LET k == Find(s, nl, p) IN IF k = 0 THEN 0 ELSE 1 + CountFrom(s, nl, k + Len(nl))
Count(s, nl) == CountFrom(s, nl, 1)

Flatten(ss) == FlattenSeq(ss)
Repeat(b, n) == [i \in 1..n |-> b]

RECURSIVE DecStr(_)
DecStr(n) == IF n < 10 THEN <<48 + n>> ELSE DecStr(n \div 10) \o <<48 + (n % 10)>>
IntStr(n) == IF n < 0 THEN <<45>> \o DecStr(0 - n) ELSE DecStr(n)

(* lexicographic order on sequences of naturals (Python bytes / str order) *)
RECURSIVE LessFrom(_,_,_)
LessFrom(a, b, i) ==
  IF i > Len(a) THEN i <= Len(b)
  ELSE IF i > Len(b) THEN FALSE
  ELSE IF a[i] < b[i] THEN TRUE
  ELSE IF a[i] > b[i] THEN FALSE
  ELSE LessFrom(a, b, i + 1)
Less(a, b) == LessFrom(a, b, 1)

IsPrefixOf(a, b) == Len(a) <= Len(b) /\ SubSeq(b, 1, Len(a)) = a
AllIn(s, S) == \A i \in 1..Len(s) : s[i] \in S
=======================================================================

-------------------------- MODULE Trace_Reader --------------------------
(* Direction B for the reader-side properties: one case = one file given  *)
(* to the real DiffXReader and everything it did (records, how it ended). *)
(* case: [id, mode, file, cmap, recs, end, line, col, msgok, prefixok,    *)
(*        base, baseend, ins, dom = [end, closed]]                        *)
(*   end \in {"done", "parse", "other:<Exception>", "timeout"}            *)
(* mode "exact"    (C03 C04 C10 C11 C12 C17): Reader.tla decides records,  *)
(*                 acceptance and the range of the error line             *)
(* mode "contract" (C08): terminates; done or a positioned parse error    *)
(*                 whose line lies within the input and whose message     *)
(*                 agrees with its attributes; nothing else               *)
(* mode "cut"      (C07): records are a prefix of the intact file's       *)
(*                 (prefixok, an equality between two observations) and   *)
(*                 the end is done / parse error                          *)
(* mode "header"   (C11): header accepted? options verbatim?              *)
(* mode "order"    (C10): accepted id sequence and rejection point only   *)
(* mode "scope"    (C04): content fields only (which encoding decoded)    *)
(* mode "unknown"  (C12 C17): relation to the records of the original     *)
(*                 file when unknown options are inserted                 *)
(* Verdicts: ok | FAIL <clause> | DEV <deviation> | SKIP (unspecified)    *)
EXTENDS Integers, Sequences, TLC, Json, IOUtils, Reader

VARIABLES i
Cases == ndJsonDeserialize(IOEnv.TRACE_FILE)
TraceTables == JsonDeserialize(IOEnv.TABLES_FILE)

RECURSIVE FirstDiff(_,_,_)
FirstDiff(a, b, n) ==
  IF n > Len(a) /\ n > Len(b) THEN 0
  ELSE IF n > Len(a) \/ n > Len(b) THEN n
  ELSE IF a[n] # b[n] THEN n ELSE FirstDiff(a, b, n + 1)
RecField(a, b) ==
  IF a.id # b.id THEN "id" ELSE IF a.level # b.level THEN "level" ELSE IF a.type # b.type THEN "type"
  ELSE IF a.line # b.line THEN "line" ELSE IF a.opts # b.opts THEN "options"
  ELSE IF a.kind # b.kind THEN "kind" ELSE IF a.text # b.text THEN "text"
  ELSE IF a.raw # b.raw THEN "bytes" ELSE "metadata"
Vd(s, w) == [s |-> s, w |-> w]

RecsClause(exp, got) ==
  LET d == FirstDiff(exp, got, 1) IN
  IF d = 0 THEN "" ELSE IF d > Len(exp) THEN "extra-record" ELSE IF d > Len(got) THEN "missing-record"
  ELSE "record-" \o RecField(exp[d], got[d]) \o "-differs"

(* Upper bound for a logical line number (N10): every logical line ends in
   an encoded LF.  When every codec the file names encodes LF with the byte
   0x0A (all UTFs, ASCII supersets) that is the physical line count; with an
   EBCDIC-like codec in play only "a line has at least one byte" remains. *)
LfIsByte10(codec) ==
  CASE codec.fam = "table" -> \E q \in 1..Len(NL(codec, "unix")) : NL(codec, "unix")[q] = 10
    [] OTHER -> TRUE
LineBound(c) ==
  IF \A q \in 1..Len(c.cmap) : LfIsByte10(c.cmap[q].codec) THEN PhysLines(c.file) ELSE Len(c.file)
LibraryFamilies == {"ok", "parse", "order", "content", "option", "unknown_option", "diffx"}
Contract(c) ==
  IF c.end \notin {"done", "parse"} THEN "raised-" \o c.end
  ELSE IF c.end = "parse" /\ (c.line < 0 \/ c.line > LineBound(c)) THEN "error-line-outside-input"
  ELSE IF c.end = "parse" /\ ~c.msgok THEN "message-disagrees-with-line-column"
  ELSE IF c.dom.end \notin LibraryFamilies THEN "object-model-load-raised-" \o c.dom.end
  ELSE IF ~c.dom.closed THEN "stream-not-closed-after-load(" \o c.dom.end \o ")"
  ELSE ""

Exact(c) ==
  LET r == ReadFile(c.file, c.cmap) IN
  IF r.status = "unspec" THEN
     (IF Len(c.recs) >= Len(r.recs) /\ SubSeq(c.recs, 1, Len(r.recs)) = r.recs
         /\ (c.end = "done" \/ c.end = "parse")
      THEN Vd("SKIP", "unspecified-zone") ELSE Vd("FAIL", "records-before-unspecified-zone-differ"))
  ELSE IF c.end \notin {"done", "parse"} THEN Vd("FAIL", "raised-" \o c.end)
  ELSE IF r.status = "done" THEN
     (IF c.end # "done" THEN Vd("FAIL", "rejected-but-spec-accepts")
      ELSE IF RecsClause(r.recs, c.recs) # "" THEN Vd("FAIL", RecsClause(r.recs, c.recs)) ELSE Vd("ok", "accepted"))
  ELSE IF c.end = "parse" THEN
     (IF RecsClause(r.recs, c.recs) # "" THEN Vd("FAIL", RecsClause(r.recs, c.recs) \o "-before-error")
      ELSE IF c.line < r.lo \/ c.line > r.hi THEN Vd("FAIL", "error-line-does-not-designate-the-section")
      ELSE Vd("ok", "rejected"))
  ELSE \* impl completed although the specification rejects
     IF r.status = "short" THEN
        LET a == ReadFileAB(c.file, c.cmap) IN
        IF a.status = "done" /\ a.recs = c.recs THEN Vd("DEV", "D_ShortReadAccepted")
        ELSE IF a.status = "unspec" THEN Vd("SKIP", "unspecified-zone")
        ELSE Vd("FAIL", "accepted-but-spec-rejects(short-content)")
     ELSE Vd("FAIL", "accepted-but-spec-rejects")

Cut(c) ==
  IF c.end \notin {"done", "parse"} THEN Vd("FAIL", "raised-" \o c.end)
  ELSE IF c.prefixok THEN Vd("ok", "")
  ELSE LET a == ReadFileAB(c.file, c.cmap)  r == ReadFile(c.file, c.cmap) IN
       IF r.status = "short" /\ a.recs = c.recs THEN Vd("DEV", "D_ShortReadAccepted")
       ELSE IF r.status = "unspec" \/ (r.status = "short" /\ a.status = "unspec")
            THEN Vd("SKIP", "unspecified-zone")     \* e.g. bytes the shipped codec table does not cover
       ELSE Vd("FAIL", "yielded-a-section-that-differs-from-the-intact-file")

(* C10: only the accepted id sequence and where it is rejected *)
Order(c) ==
  LET r == ReadFile(c.file, c.cmap)
      ids(rr) == [n \in 1..Len(rr) |-> rr[n].id] IN
  IF r.status = "unspec" THEN Vd("SKIP", "unspecified-zone")
  ELSE IF c.end \notin {"done", "parse"} THEN Vd("FAIL", "raised-" \o c.end)
  ELSE IF ids(c.recs) # ids(r.recs) THEN
       Vd("FAIL", IF Len(c.recs) > Len(r.recs) THEN "accepted-a-section-the-hierarchy-forbids"
                  ELSE IF Len(c.recs) < Len(r.recs) THEN "rejected-a-section-the-hierarchy-allows"
                  ELSE "section-ids-differ")
  ELSE IF (r.status = "done") # (c.end = "done") THEN
       Vd("FAIL", IF c.end = "done" THEN "accepted-but-spec-rejects" ELSE "rejected-but-spec-accepts")
  ELSE Vd("ok", IF r.status = "done" THEN "accepted" ELSE "rejected")

(* C04 reader side: only WHICH encoding decoded each content section *)
ScopeProj(r) == [id |-> r.id, kind |-> r.kind, text |-> r.text, raw |-> r.raw, meta |-> r.meta]
ScopeMode(c) ==
  LET r == ReadFile(c.file, c.cmap)
      pr(rr) == [n \in 1..Len(rr) |-> ScopeProj(rr[n])] IN
  IF r.status # "done" THEN Vd("SKIP", "not-a-well-formed-file")
  ELSE IF c.end # "done" THEN Vd("FAIL", "well-formed-file-not-read:" \o c.end)
  ELSE IF pr(c.recs) # pr(r.recs) THEN Vd("FAIL", "content-decoded-with-wrong-encoding")
  ELSE Vd("ok", "accepted")

(* C12 / C17: metamorphic - c.base are the records the real reader gave for
   the ORIGINAL file, c.recs those for the file with the options c.ins
   ([sec (1-based record index), k, v]) inserted into headers. *)
WithIns(rec, n, ins) ==
  LET mine == SelectSeq(ins, LAMBDA x : x.sec = n)
      add == [q \in 1..Len(mine) |-> Opt(mine[q].k, mine[q].v)]
      all == rec.opts \o add
      srt == SortSeq(all, LAMBDA x, y : Less(x.k, y.k)) IN
  [rec EXCEPT !.opts = srt]
UnknownMode(c) ==
  IF c.end # c.baseend THEN Vd("FAIL", "outcome-changed:" \o c.baseend \o "->" \o c.end)
  ELSE IF Len(c.recs) # Len(c.base) THEN Vd("FAIL", "number-of-records-changed")
  ELSE LET bad == {n \in 1..Len(c.base) : WithIns(c.base[n], n, c.ins) # c.recs[n]} IN
       IF bad = {} THEN Vd("ok", "accepted")
       ELSE LET n == CHOOSE x \in bad : \A y \in bad : x <= y IN
            Vd("FAIL", "record-" \o RecField(WithIns(c.base[n], n, c.ins), c.recs[n]) \o "-changed-by-unknown-option")

(* C11: is the header line accepted, and are its options reported verbatim
   (integers converted)?  Nothing else about the file is judged. *)
HeaderMode(c) ==
  LET r == ReadFile(c.file, c.cmap)
      os(rr) == [n \in 1..Len(rr) |-> rr[n].opts] IN
  IF r.status = "unspec" THEN Vd("SKIP", "unspecified-zone")
  ELSE IF c.end \notin {"done", "parse"} THEN Vd("FAIL", "raised-" \o c.end)
  ELSE IF r.status = "done" /\ c.end # "done" THEN Vd("FAIL", "valid-header-rejected")
  ELSE IF r.status # "done" /\ c.end = "done" THEN Vd("FAIL", "invalid-header-accepted")
  ELSE IF r.status = "done" /\ os(r.recs) # os(c.recs) THEN Vd("FAIL", "options-not-reported-verbatim")
  ELSE Vd("ok", IF r.status = "done" THEN "accepted" ELSE "rejected")

Verdict(c) ==
  CASE c.mode = "exact" -> Exact(c)
    [] c.mode = "header" -> HeaderMode(c)
    [] c.mode = "order" -> Order(c)
    [] c.mode = "scope" -> ScopeMode(c)
    [] c.mode = "unknown" -> UnknownMode(c)
    [] c.mode = "contract" -> (IF Contract(c) = "" THEN Vd("ok", "") ELSE Vd("FAIL", Contract(c)))
    [] c.mode = "cut" -> Cut(c)

Init == i = 1
Next == /\ i <= Len(Cases)
        /\ LET v == Verdict(Cases[i]) IN PrintT(<<"V", Cases[i].id, v.s, i, v.w>>)
        /\ i' = i + 1
Spec == Init /\ [][Next]_i
=======================================================================

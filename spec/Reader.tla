---------------------------- MODULE Reader ----------------------------
(* The streaming reader as the DiffX specification defines it (L2).       *)
(* Written from docs/spec/*.rst and the property statements (N1-N12 in    *)
(* DESIGN.md), not from the Python.                                       *)
(*                                                                        *)
(* RStep(f, cmap, rs) consumes blank lines and ONE section (header plus   *)
(* content) of file f; ReadFile iterates it.  MC_Reader runs the same     *)
(* function as a TLA+ action to check totality and progress.              *)
(*   cmap : sequence of [name (bytes), codec] - meaning of every string   *)
(*          that occurs as an `encoding=` value (harness supplied, from   *)
(*          the canonical codec registry; unknown names have fam          *)
(*          "unknown")                                                    *)
(* status : "running" | "done" | "error" | "short" | "unspec"             *)
(*   short  = declared length exceeds the data present (STRICT: an error; *)
(*            ReadFileAB models the as-built deviation                    *)
(*            D_ShortReadAccepted)                                        *)
(*   unspec = the file left the specified zone (DESIGN.md 5); records so  *)
(*            far are still binding                                       *)
(* lo..hi : allowed range for the line of a parse error (N10)             *)
EXTENDS Integers, Sequences, SequencesExt, Bytes, Codec, Sections, Header, JsonVal, JsonParse, Content, Writer

CodecOf(cmap, v) ==
  LET idx == {i \in 1..Len(cmap) : cmap[i].name = v} IN
  IF idx = {} THEN [fam |-> "unknown", tid |-> ""] ELSE cmap[CHOOSE i \in idx : TRUE].codec

IsBlank(l) == \A i \in 1..Len(l) : l[i] \in {32, 9, 10, 13, 11, 12}

R0 == [pos |-> 1, line |-> 0, prev |-> "START", decl |-> <<NoEnc, NoEnc, NoEnc>>, fnl |-> <<>>,
       recs |-> <<>>, status |-> "running", lo |-> 0, hi |-> 0]
Stop(rs, status, lo, hi) == [rs EXCEPT !.status = status, !.lo = lo, !.hi = hi]

RECURSIVE RStepAt(_,_,_,_,_)
RStepAt(f, cmap, rs, pos, ab) ==
  LET k == Find(f, <<10>>, pos) IN
  IF k = 0 THEN Stop(rs, "done", 0, 0)                    \* EOF; an unterminated tail is not a header line
  ELSE LET raw == SubSeq(f, pos, k) IN
    IF IsBlank(raw) THEN RStepAt(f, cmap, rs, k + 1, ab)      \* blank lines do not count (N10)
    ELSE
      LET line == rs.line
          fnl2 == IF rs.fnl # <<>> THEN rs.fnl ELSE IF EndsWith(raw, <<13,10>>) THEN <<13,10>> ELSE <<10>> IN
      IF ~EndsWith(raw, fnl2) THEN Stop(rs, "error", line, line)
      ELSE LET h == ParseHeader(SubSeq(raw, 1, Len(raw) - Len(fnl2))) IN
        IF ~h.ok THEN Stop(rs, "error", line, line)
        ELSE LET id == SecId(h.level, h.name) o == h.opts IN
          IF id \notin FollowOf(rs.prev) THEN Stop(rs, "error", line, line)
          ELSE IF AnyUnspecInt(o) THEN Stop(rs, "unspec", line, line)
          ELSE LET own == IF Has(o, K_enc) THEN [given |-> TRUE, name |-> Get(o, K_enc), codec |-> CodecOf(cmap, Get(o, K_enc))]
                          ELSE NoEnc IN
          IF own.given /\ own.codec.fam = "opaque" THEN Stop(rs, "unspec", line, line)
          ELSE IF id \in ContainerIds THEN
            IF id = "diffx" /\ (~Has(o, K_ver) \/ Get(o, K_ver) # V_10) THEN Stop(rs, "error", line, line)
            ELSE IF own.given /\ own.codec.fam = "unknown" THEN Stop(rs, "unspec", line, line)
            ELSE LET l == ContainerLevel(id) IN
              [rs EXCEPT !.pos = k + 1, !.line = line + 1, !.prev = id, !.fnl = fnl2,
                         !.decl = [j \in 1..3 |-> IF j - 1 < l THEN rs.decl[j] ELSE IF j - 1 = l THEN own ELSE NoEnc],
                         !.recs = Append(rs.recs, Rec(id, line, o, "none", <<>>, <<>>, NullV))]
          ELSE \* content section
            IF ~Has(o, K_len) \/ ~IsIntVal(Get(o, K_len)) \/ Get(o, K_len)[1] = 45 THEN Stop(rs, "error", line, line + 1)
            ELSE IF ~Small(Get(o, K_len)) THEN Stop(rs, "short", line, line + 1)
            ELSE LET len == IntOf(Get(o, K_len))
                     eff == IF id \in DiffIds THEN own
                            ELSE IF own.given THEN own ELSE Nearest(rs.decl, OpenLevel(rs.prev))
                     codec == IF eff.given THEN eff.codec ELSE NoCodec
                     le == IF Has(o, K_le) THEN (IF Get(o, K_le) = V_unix THEN "unix" ELSE IF Get(o, K_le) = V_dos THEN "dos" ELSE "bad") ELSE "none"
                     isPre == id \in PreambleIds
                     indok == ~(isPre /\ Has(o, K_ind)) \/ (IsIntVal(Get(o, K_ind)) /\ Get(o, K_ind)[1] # 45)
                     ind == IF isPre /\ Has(o, K_ind) /\ indok THEN (IF Small(Get(o, K_ind)) THEN IntOf(Get(o, K_ind)) ELSE 999999999) ELSE 0
                     avail == Len(f) - k IN
              IF id \in MetaIds /\ Has(o, K_fmt) /\ Get(o, K_fmt) # V_json THEN Stop(rs, "error", line, line + 1)
              ELSE IF le = "bad" \/ ~indok THEN Stop(rs, "error", line, line + 1)
              ELSE IF codec.fam = "unknown" THEN Stop(rs, "error", line, line + 1)
              ELSE IF len > avail /\ ~(ab /\ avail > 0) THEN Stop(rs, "short", line, line + 1)
              ELSE LET len2 == IF len > avail THEN avail ELSE len     \* only under D_ShortReadAccepted
                       rawc == SubSeq(f, k + 1, k + len2)
                       r == Recover(rawc, codec, ind, le, codec.fam # "none" /\ id \notin DiffIds)
                       hi == line + (IF r.nlines > 1 THEN r.nlines ELSE 1)
                       nxt == [rs EXCEPT !.pos = k + len2 + 1, !.line = line + 1 + r.nlines, !.prev = id, !.fnl = fnl2] IN
                IF r.unspec THEN Stop(rs, "unspec", line, hi)
                ELSE IF ~r.ok THEN Stop(rs, "error", line, hi)
                ELSE IF id \in MetaIds THEN
                  IF codec.fam = "none" THEN Stop(rs, "unspec", line, hi)
                  ELSE LET j == ParseJson(r.text) IN
                    IF j.unspec THEN Stop(rs, "unspec", line, hi)
                    ELSE IF ~j.ok THEN Stop(rs, "error", line, hi)
                    ELSE [nxt EXCEPT !.recs = Append(rs.recs, Rec(id, line, o, "meta", <<>>, <<>>, SortKeys(j.v)))]
                ELSE IF isPre THEN
                  [nxt EXCEPT !.recs = Append(rs.recs,
                      Rec(id, line, o, IF codec.fam = "none" THEN "bytes" ELSE "text",
                          r.text, IF codec.fam = "none" THEN r.bytes ELSE <<>>, NullV))]
                ELSE
                  [nxt EXCEPT !.recs = Append(rs.recs, Rec(id, line, o, "bytes", <<>>, r.bytes, NullV))]

RStep(f, cmap, rs) == RStepAt(f, cmap, rs, rs.pos, FALSE)

RECURSIVE RLoop(_,_,_,_)
RLoop(f, cmap, rs, ab) == IF rs.status # "running" THEN rs ELSE RLoop(f, cmap, RStepAt(f, cmap, rs, rs.pos, ab), ab)
ReadFile(f, cmap) == RLoop(f, cmap, R0, FALSE)
(* As-built deviation D_ShortReadAccepted (open finding F9): when the declared
   length exceeds the data present, the bytes that ARE present are taken as
   the content (and accepted if they happen to end in the section newline). *)
ReadFileAB(f, cmap) == RLoop(f, cmap, R0, TRUE)

(* number of physical lines (LF terminated or trailing) - bound for error lines, C08 *)
PhysLines(f) == Count(f, <<10>>) + (IF f # <<>> /\ f[Len(f)] # 10 THEN 1 ELSE 0)
=======================================================================

--------------------------- MODULE MC_Writer ---------------------------
(* Small-scope model check of the byte-level Writer against the           *)
(* independent Reader and the declarative well-formedness predicate       *)
(* (L2 |= L1) - the design-level argument for C01, C02, C06, C07:         *)
(*   RoundTrip : every reachable output reads back as exactly the records *)
(*               the writer promised (every accepted prefix of calls is a *)
(*               readable file)                                           *)
(*   Canonical : every header of every reachable output re-renders to     *)
(*               itself (sorted, ", "-separated, ASCII) and ids follow    *)
(*               the hierarchy                                            *)
(*   Framed    : every cut of every reachable output yields a prefix of   *)
(*               those records followed by done / error / short           *)
(*   AppendOnly, RejectAtomic as action properties                        *)
EXTENDS Integers, Sequences, TLC, Reader
CONSTANTS MaxCalls, CheckCuts
VARIABLES st, n, acc
vars == <<st, n, acc>>

NoTables == [none |-> [enc |-> [x \in {} |-> <<>>], dec |-> [x \in {} |-> 0]]]

EU8 == [given |-> TRUE, name |-> <<117,116,102,45,56>>, codec |-> C("utf-8")]
EU16 == [given |-> TRUE, name |-> <<117,116,102,45,49,54>>, codec |-> C("utf-16")]
EL1 == [given |-> TRUE, name |-> <<108,97,116,105,110,45,49>>, codec |-> C("latin-1")]
EU32B == [given |-> TRUE, name |-> <<117,116,102,45,51,50,45,98,101>>, codec |-> C("utf-32-be")]
CMap == << [name |-> EU8.name, codec |-> EU8.codec], [name |-> EU16.name, codec |-> EU16.codec],
           [name |-> EL1.name, codec |-> EL1.codec], [name |-> EU32B.name, codec |-> EU32B.codec] >>
Encs == {NoEnc, EU16, EL1}
(* texts: plain, header look-alike with blank line, CRLF + lone CR, leading spaces, BOM char *)
Texts == { <<97>>, <<35,46,109,101,116,97,58,10,10,97>>, <<97,13,10,98,13>>, <<32,32,97,10>>, <<233,10,65279>> }
Raws == { <<97>>, <<35,46,46,102,105,108,101,58,10>>, <<97,13,10,0>> }
MetaA == [t |-> "obj", s |-> <<>>, n |-> 0, neg |-> FALSE,
          items |-> << [k |-> <<97>>, v |-> [t |-> "str", s |-> <<233,10>>, n |-> 0, neg |-> FALSE, items |-> <<>>]] >>]
MetaB == [t |-> "obj", s |-> <<>>, n |-> 0, neg |-> FALSE,
          items |-> << [k |-> <<98>>, v |-> [t |-> "arr", s |-> <<>>, n |-> 0, neg |-> FALSE,
                        items |-> << [t |-> "int", s |-> <<>>, n |-> 7, neg |-> TRUE, items |-> <<>>] >>]],
                       [k |-> <<97>>, v |-> [t |-> "null", s |-> <<>>, n |-> 0, neg |-> FALSE, items |-> <<>>]] >>]
CallOf(op, e, text, indent, le, meta, raw) ==
  [op |-> op, enc |-> e, bad |-> "", text |-> text, indent |-> indent, le |-> le, mime |-> "none",
   meta |-> meta, raw |-> raw, dtype |-> "none"]
Calls ==
  {CallOf(op, e, <<>>, -1, "none", NullV, <<>>) : op \in {"change", "file"}, e \in Encs}
  \cup {CallOf("preamble", e, t, i, le, NullV, <<>>) : e \in Encs, t \in Texts, i \in {0, 1, 4}, le \in {"none", "dos"}}
  \cup {CallOf("meta", e, <<>>, -1, "none", m, <<>>) : e \in {NoEnc, EU16}, m \in {MetaA, MetaB}}
  \cup {CallOf("diff", e, <<>>, -1, le, NullV, r) : e \in {NoEnc, EU16}, r \in Raws, le \in {"none", "unix", "dos"}}
  \cup {CallOf("preamble", NoEnc, <<>>, 4, "none", NullV, <<>>)}      \* empty text: must be rejected

Init == st = WInit(EU8) /\ n = 0 /\ acc = TRUE
Next == \E c \in Calls :
          LET r == WStep(st, c) IN
          /\ n < MaxCalls
          /\ st' = r.st /\ acc' = r.accepted /\ n' = IF r.accepted THEN n + 1 ELSE n
Spec == Init /\ [][Next]_vars

RoundTrip == LET r == ReadFile(st.out, CMap) IN r.status = "done" /\ r.recs = st.recs

(* frames of a file located structurally: header line, then `length` bytes *)
RECURSIVE FramesOK(_,_,_)
FramesOK(f, pos, prevId) ==
  IF pos > Len(f) THEN TRUE
  ELSE LET k == Find(f, <<10>>, pos) IN
    IF k = 0 THEN FALSE
    ELSE LET line == SubSeq(f, pos, k - 1)  h == ParseHeader(line) IN
      /\ h.ok
      /\ \A i \in 1..Len(line) : line[i] < 128
      /\ LET id == SecId(h.level, h.name) IN
         /\ id \in LegalIds /\ id \in FollowOf(prevId)
         /\ RenderHeader(id, h.opts) = SubSeq(f, pos, k)           \* sorted, ", ", nothing else
         /\ \A a, b \in 1..Len(h.opts) : a # b => h.opts[a].k # h.opts[b].k
         /\ IF id \in ContentIds
            THEN /\ Has(h.opts, K_len) /\ IsIntVal(Get(h.opts, K_len))
                 /\ k + IntOf(Get(h.opts, K_len)) <= Len(f)
                 /\ FramesOK(f, k + IntOf(Get(h.opts, K_len)) + 1, id)
            ELSE FramesOK(f, k + 1, id)
Canonical == FramesOK(st.out, 1, "START")

Framed == CheckCuts =>
  \A k \in 0..Len(st.out) :
    LET r == ReadFile(SubSeq(st.out, 1, k), CMap) IN
      /\ r.status \in {"done", "error", "short"}
      /\ IsPrefixOf(r.recs, st.recs)

(* The same statement about the AS-BUILT reader (ReadFileAB: a declared length
   that exceeds the data present is satisfied with the data that is present).
   It must FAIL: its counterexample documents open finding F9. *)
FramedAB ==
  \A k \in 0..Len(st.out) :
    LET r == ReadFileAB(SubSeq(st.out, 1, k), CMap) IN IsPrefixOf(r.recs, st.recs)

AppendOnly == [][IsPrefixOf(st.out, st'.out)]_vars
RejectAtomic == [][~acc' => st' = st]_vars
IdsLegal == LegalOrder([i \in 1..Len(st.recs) |-> st.recs[i].id])
=======================================================================

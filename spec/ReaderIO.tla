--------------------------- MODULE ReaderIO ---------------------------
(* The reader's whole conversation with its stream (L3, reader.py          *)
(* iter_sections / _read_header / _read_until / _read_content): the only   *)
(* operations are read(n) and a relative seek back.  ReadUntil.tla is the  *)
(* single-line fragment of this machine; here it is iterated over a file:  *)
(*   line phase     blocks of any size n >= 1 are read until one holds LF; *)
(*                  the part after the LF is given back with a seek        *)
(*                  (ReadMiss / ReadHit / ReadEof)                         *)
(*   dispatch       the completed line is blank (skipped), a container     *)
(*                  header (a frame is complete) or a content header       *)
(*                  announcing `want` bytes            (inside ReadHit)    *)
(*   content phase  ONE read of exactly `want` bytes         (ReadContent) *)
(*   Yield          a completed frame is handed to the consumer before     *)
(*                  anything further is read (the reader is a generator)   *)
(* What a line announces is a parameter: Want(line) =                      *)
(*   -2 blank | -1 container header | -3 not a header (the reader stops)   *)
(*   | n >= 0 content header with length n.                                *)
(* MC_ReaderIO instantiates it with a toy header language and checks, for  *)
(* ALL small streams and ALL block sizes chosen afresh at every read, that *)
(* the frames delivered are a function of the stream alone (C17 lifted     *)
(* from one line to the file), that no byte is consumed twice or skipped,  *)
(* and that every run ends.  Trace_ReaderIO instantiates it with the real  *)
(* header grammar (Header.tla) and replays the read/seek/yield log of the  *)
(* real DiffXReader through the same actions.                              *)
EXTENDS Integers, Sequences, TLC, Bytes
CONSTANT Want(_)
VARIABLES stream, pos, phase, buf, hdr, want, frames, yielded
iovars == <<stream, pos, phase, buf, hdr, want, frames, yielded>>

IOMin(a, b) == IF a < b THEN a ELSE b
IOStart(s) == /\ stream = s /\ pos = 1 /\ phase = "line" /\ buf = <<>> /\ hdr = <<>> /\ want = -1
              /\ frames = <<>> /\ yielded = 0
Blk(n) == SubSeq(stream, pos, IOMin(pos + n - 1, Len(stream)))
LfIn(b) == Find(b, <<10>>, 1)
Frame(h, c, e) == [hdr |-> h, content |-> c, end |-> e]

(* a block without the delimiter: keep all of it *)
ReadMiss(n) ==
  /\ phase = "line" /\ yielded = Len(frames) /\ n >= 1
  /\ Blk(n) # <<>> /\ LfIn(Blk(n)) = 0
  /\ buf' = buf \o Blk(n) /\ pos' = pos + Len(Blk(n))
  /\ UNCHANGED <<stream, phase, hdr, want, frames, yielded>>
(* nothing left: an unterminated tail is not a line *)
ReadEof(n) ==
  /\ phase = "line" /\ yielded = Len(frames) /\ n >= 1
  /\ Blk(n) = <<>>
  /\ phase' = "eof"
  /\ UNCHANGED <<stream, pos, buf, hdr, want, frames, yielded>>
(* a block with the delimiter at i: keep 1..i, seek back Len(blk) - i, dispatch on the line *)
SeekBack(n) == Len(Blk(n)) - LfIn(Blk(n))
ReadHitG(n, seekback) ==
  /\ phase = "line" /\ yielded = Len(frames) /\ n >= 1
  /\ LfIn(Blk(n)) # 0
  /\ LET i == LfIn(Blk(n))
         line == buf \o SubSeq(Blk(n), 1, i)
         w == Want(line) IN
     /\ pos' = (IF seekback THEN pos + i ELSE pos + Len(Blk(n))) /\ buf' = <<>>
     /\ IF w = -2 THEN phase' = "line" /\ UNCHANGED <<hdr, want, frames>>
        ELSE IF w = -1 THEN /\ phase' = "line" /\ frames' = Append(frames, Frame(line, <<>>, pos + i))
                            /\ UNCHANGED <<hdr, want>>
        ELSE IF w = -3 THEN phase' = "stop" /\ UNCHANGED <<hdr, want, frames>>
        ELSE phase' = "content" /\ hdr' = line /\ want' = w /\ UNCHANGED frames
  /\ UNCHANGED <<stream, yielded>>
ReadHit(n) == ReadHitG(n, TRUE)
(* the content: one read of the announced length (short at the end of the stream) *)
ReadContent ==
  /\ phase = "content"
  /\ frames' = Append(frames, Frame(hdr, Blk(want), pos + Len(Blk(want))))
  /\ pos' = pos + Len(Blk(want)) /\ phase' = "line" /\ hdr' = <<>> /\ want' = -1
  /\ UNCHANGED <<stream, buf, yielded>>
(* the consumer gets a frame before the reader touches the stream again *)
Yield ==
  /\ yielded < Len(frames) /\ yielded' = yielded + 1
  /\ UNCHANGED <<stream, pos, phase, buf, hdr, want, frames>>

(* ---- what the stream alone says the frames are (no blocks, no positions in time) ---- *)
RECURSIVE DeclFrames(_,_)
DeclFrames(s, p) ==
  LET k == Find(s, <<10>>, p) IN
  IF k = 0 THEN <<>>
  ELSE LET line == SubSeq(s, p, k) w == Want(line) IN
    IF w = -2 THEN DeclFrames(s, k + 1)
    ELSE IF w = -1 THEN <<Frame(line, <<>>, k + 1)>> \o DeclFrames(s, k + 1)
    ELSE IF w = -3 THEN <<>>
    ELSE LET c == SubSeq(s, k + 1, IOMin(k + w, Len(s))) IN
         <<Frame(line, c, k + 1 + Len(c))>> \o DeclFrames(s, k + 1 + Len(c))

(* C17 over the whole file: whatever the blocks were, the frames are those of the stream *)
FramesOfStream == IsPrefixOf(frames, DeclFrames(stream, 1))
                  /\ (phase = "eof" => frames = DeclFrames(stream, 1))
(* every byte is consumed once, in order: the partial line is exactly what lies before pos *)
Sequential == /\ pos >= 1 /\ pos <= Len(stream) + 1
              /\ buf = SubSeq(stream, pos - Len(buf), pos - 1) /\ LfIn(buf) = 0
              /\ (phase = "line" /\ buf = <<>> /\ frames # <<>> /\ want = -1 => pos >= frames[Len(frames)].end)
(* streaming: a frame is delivered before the next byte is read *)
Lazy == Len(frames) - yielded \in {0, 1} /\ (phase = "content" => yielded = Len(frames))
Ended == phase \in {"eof", "stop"} /\ yielded = Len(frames)
=======================================================================

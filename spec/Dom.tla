----------------------------- MODULE Dom -----------------------------
(* The object model (pydiffx.dom) as values (C05, C06, C18, C19).          *)
(*                                                                         *)
(* tree    = [opts, pre, meta, changes]                                    *)
(* change  = [opts, pre, meta, files]        file = [opts, meta, diff]     *)
(* content = [opts, kind, text, raw, meta]   kind "none" = no content      *)
(* opts    = sequence of [k (bytes), s (value text as bytes), t (type)],   *)
(*           sorted by key;  t in {"str","int","none","bool","other"}      *)
(* value   = [t, s, b, n, j] an attribute value offered to a typed attribute*)
(*           t in {"str","int","bool","none","bytes","dict","list",        *)
(*           "float","other"}; s text/bytes, j JSON for dict               *)
(* The model has VALUE semantics: every operation changes exactly one tree *)
(* (C18); observers change nothing.                                        *)
EXTENDS Integers, Sequences, SequencesExt, TLC, Reader

B_utf8 == <<117,116,102,45,56>>
K_diff_type == K_type
O(k, s, t) == [k |-> k, s |-> s, t |-> t]
OStr(k, s) == O(k, s, "str")
OInt(k, n) == O(k, IntStr(n), "int")
SortOpts(os) == SortSeq(os, LAMBDA x, y : Less(x.k, y.k))
OHas(os, k) == \E i \in 1..Len(os) : os[i].k = k
OGet(os, k) == os[CHOOSE i \in 1..Len(os) : os[i].k = k]
OSet(os, o) == IF OHas(os, o.k) THEN [i \in 1..Len(os) |-> IF os[i].k = o.k THEN o ELSE os[i]]
               ELSE SortOpts(Append(os, o))
ODel(os, k) == SelectSeq(os, LAMBDA x : x.k # k)

EmptyObj == [t |-> "obj", s |-> <<>>, n |-> 0, neg |-> FALSE, items |-> <<>>]
NoContent(defopts) == [opts |-> defopts, kind |-> "none", text |-> <<>>, raw |-> <<>>, meta |-> NullV]
DefPre == NoContent(<<>>)
DefMeta == [opts |-> << OStr(K_fmt, V_json) >>, kind |-> "meta", text |-> <<>>, raw |-> <<>>, meta |-> EmptyObj]
DefDiff == NoContent(<<>>)
NewTree == [opts |-> << OStr(K_enc, B_utf8), OStr(K_ver, V_10) >>, pre |-> DefPre, meta |-> DefMeta, changes |-> <<>>]
NewChange == [opts |-> <<>>, pre |-> DefPre, meta |-> DefMeta, files |-> <<>>]
NewFile == [opts |-> <<>>, meta |-> DefMeta, diff |-> DefDiff]

(* ----------------------- typed attributes (C19) ----------------------- *)
(* attribute name (bytes) -> [sec, what, key] ; sec in self/pre/meta/diff  *)
A(n) == n
AttrTable(level) ==    \* level 0 main, 1 change, 2 file
  LET common == << [n |-> "encoding", sec |-> "self", key |-> K_enc],
                   [n |-> "meta", sec |-> "meta", key |-> <<>>],
                   [n |-> "meta_encoding", sec |-> "meta", key |-> K_enc],
                   [n |-> "meta_format", sec |-> "meta", key |-> K_fmt] >>
      pre == << [n |-> "preamble", sec |-> "pre", key |-> <<>>],
                [n |-> "preamble_encoding", sec |-> "pre", key |-> K_enc],
                [n |-> "preamble_indent", sec |-> "pre", key |-> K_ind],
                [n |-> "preamble_line_endings", sec |-> "pre", key |-> K_le],
                [n |-> "preamble_mimetype", sec |-> "pre", key |-> K_mime] >>
      dif == << [n |-> "diff", sec |-> "diff", key |-> <<>>],
                [n |-> "diff_encoding", sec |-> "diff", key |-> K_enc],
                [n |-> "diff_line_endings", sec |-> "diff", key |-> K_le],
                [n |-> "diff_type", sec |-> "diff", key |-> K_type] >>
  IN IF level = 0 THEN common \o pre \o << [n |-> "version", sec |-> "self", key |-> K_ver] >>
     ELSE IF level = 1 THEN common \o pre ELSE common \o dif
AttrKnown(level, name) == \E i \in 1..Len(AttrTable(level)) : AttrTable(level)[i].n = name
AttrOf(level, name) == AttrTable(level)[CHOOSE i \in 1..Len(AttrTable(level)) : AttrTable(level)[i].n = name]

V_plain == <<116,101,120,116,47,112,108,97,105,110>>
V_markdown == <<116,101,120,116,47,109,97,114,107,100,111,119,110>>
V_text == <<116,101,120,116>>
V_binary == <<98,105,110,97,114,121>>
(* does value v satisfy the declared type / choice of option `key`, or of the content of `sec`? *)
ValueOK(sec, key, v) ==
  IF key = <<>> THEN
     CASE sec = "pre" -> v.t = "str" [] sec = "meta" -> v.t = "dict" [] sec = "diff" -> v.t = "bytes"
  ELSE CASE key = K_enc -> v.t = "str"
         [] key = K_ver -> v.t = "str" /\ v.b = V_10
         [] key = K_fmt -> v.t = "str" /\ v.b = V_json
         [] key = K_ind -> v.t \in {"int", "bool"}
         [] key = K_le -> v.t = "str" /\ v.b \in {V_unix, V_dos}
         [] key = K_mime -> v.t = "str" /\ v.b \in {V_plain, V_markdown}
         [] key = K_type -> v.t = "str" /\ v.b \in {V_text, V_binary}
(* bool where int is declared is an unspecified zone (DESIGN.md 5) *)
ValueUnspec(key, v) == key = K_ind /\ v.t = "bool"

SetContent(cs, v) ==
  CASE v.t = "str" -> [cs EXCEPT !.kind = "text", !.text = v.s, !.raw = <<>>, !.meta = NullV]
    [] v.t = "bytes" -> [cs EXCEPT !.kind = "bytes", !.raw = v.s, !.text = <<>>, !.meta = NullV]
    [] v.t = "dict" -> [cs EXCEPT !.kind = "meta", !.meta = SortKeys(v.j), !.text = <<>>, !.raw = <<>>]
ApplyToSec(cs, key, v) == IF key = <<>> THEN SetContent(cs, v) ELSE [cs EXCEPT !.opts = OSet(@, O(key, v.b, v.t))]
(* a container c at `level`; returns [ok, c] *)
SetAttr(c, level, name, v) ==
  IF ~AttrKnown(level, name) THEN [ok |-> FALSE, unspec |-> FALSE, c |-> c]
  ELSE LET a == AttrOf(level, name) IN
    IF ~ValueOK(a.sec, a.key, v) THEN [ok |-> FALSE, unspec |-> FALSE, c |-> c]
    ELSE [ok |-> TRUE, unspec |-> ValueUnspec(a.key, v),
          c |-> CASE a.sec = "self" -> [c EXCEPT !.opts = OSet(@, O(a.key, v.b, v.t))]
                  [] a.sec = "pre" -> [c EXCEPT !.pre = ApplyToSec(@, a.key, v)]
                  [] a.sec = "meta" -> [c EXCEPT !.meta = ApplyToSec(@, a.key, v)]
                  [] a.sec = "diff" -> [c EXCEPT !.diff = ApplyToSec(@, a.key, v)]]
(* constructor keywords: applied in order; the first bad one aborts construction *)
RECURSIVE ApplyAttrs(_,_,_,_)
ApplyAttrs(c, level, attrs, i) ==
  IF i > Len(attrs) THEN [ok |-> TRUE, unspec |-> FALSE, c |-> c]
  ELSE LET r == SetAttr(c, level, attrs[i].name, attrs[i].val) IN
       IF ~r.ok THEN r
       ELSE LET rest == ApplyAttrs(r.c, level, attrs, i + 1) IN [rest EXCEPT !.unspec = @ \/ r.unspec]

(* ------------------------------ serialise ----------------------------- *)
(* options of a content section as the keyword arguments of the writer call;
   unknownkw: an option the call does not take (as-built: TypeError) *)
EncOf(os) == IF OHas(os, K_enc) THEN os ELSE os
CodecOfName(cmap, name) == CodecOf(cmap, name)
EncArg(cmap, os) ==
  IF OHas(os, K_enc) /\ OGet(os, K_enc).t = "str"
  THEN [given |-> TRUE, name |-> OGet(os, K_enc).s, codec |-> CodecOfName(cmap, OGet(os, K_enc).s)] ELSE NoEnc
LeArg(os) == IF OHas(os, K_le) THEN (IF OGet(os, K_le).s = V_dos THEN "dos" ELSE IF OGet(os, K_le).s = V_unix THEN "unix" ELSE "bad") ELSE "none"
KnownKeys(kind) ==
  CASE kind = "preamble" -> {K_enc, K_ind, K_le, K_mime}
    [] kind = "meta" -> {K_enc, K_fmt}
    [] kind = "diff" -> {K_enc, K_le, K_type}
    [] kind = "container" -> {K_enc}
UnknownKw(os, kind) == \E i \in 1..Len(os) : os[i].k \notin KnownKeys(kind)
CallBase(op) == [op |-> op, enc |-> NoEnc, bad |-> "", text |-> <<>>, indent |-> -1, le |-> "none",
                 mime |-> "none", meta |-> NullV, raw |-> <<>>, dtype |-> "none"]
IntOfOpt(o) == IntOf(o.s)
PreCall(cmap, cs) ==
  [CallBase("preamble") EXCEPT
     !.enc = EncArg(cmap, cs.opts), !.text = cs.text,
     !.indent = IF OHas(cs.opts, K_ind) THEN (IF OGet(cs.opts, K_ind).t = "int" THEN IntOfOpt(OGet(cs.opts, K_ind)) ELSE -1) ELSE 4,
     !.le = LeArg(cs.opts),
     !.mime = IF OHas(cs.opts, K_mime) THEN (IF OGet(cs.opts, K_mime).s = V_markdown THEN "markdown" ELSE "plain") ELSE "none",
     !.bad = IF LeArg(cs.opts) = "bad" THEN "le" ELSE ""]
MetaCall(cmap, cs) == [CallBase("meta") EXCEPT !.enc = EncArg(cmap, cs.opts), !.meta = cs.meta]
DiffCall(cmap, cs) ==
  [CallBase("diff") EXCEPT !.enc = EncArg(cmap, cs.opts), !.raw = cs.raw, !.le = LeArg(cs.opts),
     !.dtype = IF OHas(cs.opts, K_type) THEN (IF OGet(cs.opts, K_type).s = V_binary THEN "binary" ELSE "text") ELSE "none",
     !.bad = IF LeArg(cs.opts) = "bad" THEN "le" ELSE ""]
HasContent(cs) == (cs.kind = "text" /\ cs.text # <<>>) \/ (cs.kind = "bytes" /\ cs.raw # <<>>)
                  \/ (cs.kind = "meta" /\ cs.meta.items # <<>>)
(* the call list of a tree, with a flag for keyword arguments the writer does not take *)
ContentCalls(cmap, cs, kind) ==
  IF ~HasContent(cs) THEN [calls |-> <<>>, unk |-> FALSE]
  ELSE [calls |-> << CASE kind = "preamble" -> PreCall(cmap, cs) [] kind = "meta" -> MetaCall(cmap, cs) [] kind = "diff" -> DiffCall(cmap, cs) >>,
        unk |-> UnknownKw(cs.opts, kind)]
FileCalls(cmap, f) ==
  LET m == ContentCalls(cmap, f.meta, "meta")  d == ContentCalls(cmap, f.diff, "diff") IN
  [calls |-> << [CallBase("file") EXCEPT !.enc = EncArg(cmap, f.opts)] >> \o m.calls \o d.calls,
   unk |-> m.unk \/ d.unk \/ UnknownKw(f.opts, "container")]
RECURSIVE JoinCalls(_,_)
JoinCalls(xs, i) == IF i > Len(xs) THEN [calls |-> <<>>, unk |-> FALSE]
                    ELSE LET r == JoinCalls(xs, i + 1) IN [calls |-> xs[i].calls \o r.calls, unk |-> xs[i].unk \/ r.unk]
ChangeCalls(cmap, c) ==
  LET p == ContentCalls(cmap, c.pre, "preamble")  m == ContentCalls(cmap, c.meta, "meta")
      fs == JoinCalls([i \in 1..Len(c.files) |-> FileCalls(cmap, c.files[i])], 1) IN
  [calls |-> << [CallBase("change") EXCEPT !.enc = EncArg(cmap, c.opts)] >> \o p.calls \o m.calls \o fs.calls,
   unk |-> p.unk \/ m.unk \/ fs.unk \/ UnknownKw(c.opts, "container")]
ToCalls(cmap, t) ==
  LET p == ContentCalls(cmap, t.pre, "preamble")  m == ContentCalls(cmap, t.meta, "meta")
      cs == JoinCalls([i \in 1..Len(t.changes) |-> ChangeCalls(cmap, t.changes[i])], 1) IN
  [calls |-> p.calls \o m.calls \o cs.calls, unk |-> p.unk \/ m.unk \/ cs.unk]

RECURSIVE RunAll(_,_,_)
RunAll(st, calls, i) ==
  IF i > Len(calls) THEN [ok |-> TRUE, st |-> st]
  ELSE LET r == WStep(st, calls[i]) IN IF r.accepted THEN RunAll(r.st, calls, i + 1) ELSE [ok |-> FALSE, st |-> st]
(* [status, bytes]: "ok" | "raises" | "unknownkw" (D_DomOptionsNotWritable) | "unspec" *)
DomSerialize(cmap, t) ==
  LET tc == ToCalls(cmap, t)
      extraMain == \E i \in 1..Len(t.opts) : t.opts[i].k \notin {K_enc, K_ver} IN
  IF ~OHas(t.opts, K_enc) \/ OGet(t.opts, K_enc).t # "str" THEN [status |-> "unspec", bytes |-> <<>>]
  ELSE IF OHas(t.opts, K_ver) /\ OGet(t.opts, K_ver).s # V_10 THEN [status |-> "raises", bytes |-> <<>>]
  ELSE IF extraMain THEN [status |-> "unknownkw", bytes |-> <<>>]
  ELSE IF ~ValueName(EncArg(cmap, t.opts).name) THEN [status |-> "raises", bytes |-> <<>>]   \* the constructor's header
  ELSE LET r == RunAll(WInit(EncArg(cmap, t.opts)), tc.calls, 1) IN
       IF tc.unk THEN [status |-> "unknownkw", bytes |-> <<>>]
       ELSE IF r.ok THEN [status |-> "ok", bytes |-> r.st.out] ELSE [status |-> "raises", bytes |-> <<>>]

(* -------------------------------- parse ------------------------------- *)
TypedOpts(recopts, dropLen) ==
  LET keep == SelectSeq(recopts, LAMBDA o : ~(dropLen /\ o.k = K_len)) IN
  [i \in 1..Len(keep) |-> O(keep[i].k, keep[i].s, IF keep[i].i THEN "int" ELSE "str")]
ContentOf(rec) ==
  [opts |-> TypedOpts(rec.opts, TRUE), kind |-> rec.kind, text |-> rec.text, raw |-> rec.raw, meta |-> rec.meta]
(* fold the records of a file into a tree; [ok, t]; a container option that is
   not an option of the section makes the load fail (DiffXUnknownOptionError) *)
ContainerOptsOK(rec) == \A i \in 1..Len(rec.opts) : rec.opts[i].k = K_enc /\ ~rec.opts[i].i
RECURSIVE Fold(_,_,_)
Fold(recs, i, t) ==
  IF i > Len(recs) THEN [ok |-> TRUE, t |-> t]
  ELSE LET r == recs[i]  nc == Len(t.changes) IN
    CASE r.id = "diffx" -> Fold(recs, i + 1, [t EXCEPT !.opts = TypedOpts(r.opts, FALSE)])
      [] r.id = ".preamble" -> IF r.kind # "text" THEN [ok |-> FALSE, t |-> t] ELSE Fold(recs, i + 1, [t EXCEPT !.pre = ContentOf(r)])
      [] r.id = ".meta" -> IF r.meta.t # "obj" THEN [ok |-> FALSE, t |-> t] ELSE Fold(recs, i + 1, [t EXCEPT !.meta = ContentOf(r)])
      [] r.id = ".change" -> IF ~ContainerOptsOK(r) THEN [ok |-> FALSE, t |-> t]
                             ELSE Fold(recs, i + 1, [t EXCEPT !.changes = Append(@, [NewChange EXCEPT !.opts = TypedOpts(r.opts, FALSE)])])
      [] r.id = "..preamble" -> IF r.kind # "text" THEN [ok |-> FALSE, t |-> t] ELSE Fold(recs, i + 1, [t EXCEPT !.changes[nc].pre = ContentOf(r)])
      [] r.id = "..meta" -> IF r.meta.t # "obj" THEN [ok |-> FALSE, t |-> t] ELSE Fold(recs, i + 1, [t EXCEPT !.changes[nc].meta = ContentOf(r)])
      [] r.id = "..file" -> IF ~ContainerOptsOK(r) THEN [ok |-> FALSE, t |-> t]
                            ELSE Fold(recs, i + 1, [t EXCEPT !.changes[nc].files = Append(@, [NewFile EXCEPT !.opts = TypedOpts(r.opts, FALSE)])])
      [] r.id = "...meta" -> IF r.meta.t # "obj" THEN [ok |-> FALSE, t |-> t]
                             ELSE Fold(recs, i + 1, [t EXCEPT !.changes[nc].files[Len(t.changes[nc].files)].meta = ContentOf(r)])
      [] r.id = "...diff" -> Fold(recs, i + 1, [t EXCEPT !.changes[nc].files[Len(t.changes[nc].files)].diff = ContentOf(r)])
(* [status ("ok"|"raises"|"unspec"), t] *)
DomParse(cmap, bytes) ==
  LET r == ReadFile(bytes, cmap) IN
  IF r.status = "unspec" THEN [status |-> "unspec", t |-> NewTree]
  ELSE IF r.status # "done" THEN [status |-> "raises", t |-> NewTree]
  ELSE LET f == Fold(r.recs, 1, NewTree) IN [status |-> IF f.ok THEN "ok" ELSE "raises", t |-> f.t]

(* --------------------- documented normalisation (C05) ------------------ *)
(* what a tree looks like after write + parse, stated on the tree itself *)
KindOfText(cs, le) == IF le = "none" THEN DetectText(cs.text) ELSE le
NormPre(cs) ==
  IF ~HasContent(cs) THEN DefPre
  ELSE LET kind == KindOfText(cs, LeArg(cs.opts))
           o1 == IF OHas(cs.opts, K_ind) THEN cs.opts ELSE OSet(cs.opts, OInt(K_ind, 4)) IN
       [cs EXCEPT !.text = WithNL(cs.text, kind), !.opts = OSet(o1, OStr(K_le, LeBytes(kind)))]
NormMeta(cs) == IF ~HasContent(cs) THEN DefMeta ELSE [cs EXCEPT !.opts = OSet(@, OStr(K_fmt, V_json)), !.meta = SortKeys(cs.meta)]
NormDiff(cmap, cs) ==
  IF ~HasContent(cs) THEN DefDiff
  ELSE LET e == EncArg(cmap, cs.opts)
           p == PrepareBytes(cs.raw, IF e.given THEN e.codec ELSE NoCodec, LeArg(cs.opts)) IN
       [cs EXCEPT !.raw = p.bytes, !.opts = OSet(@, OStr(K_le, LeBytes(p.le)))]
Normalize(cmap, t) ==
  [opts |-> t.opts, pre |-> NormPre(t.pre), meta |-> NormMeta(t.meta),
   changes |-> [i \in 1..Len(t.changes) |->
      [opts |-> t.changes[i].opts, pre |-> NormPre(t.changes[i].pre), meta |-> NormMeta(t.changes[i].meta),
       files |-> [j \in 1..Len(t.changes[i].files) |->
          [opts |-> t.changes[i].files[j].opts, meta |-> NormMeta(t.changes[i].files[j].meta),
           diff |-> NormDiff(cmap, t.changes[i].files[j].diff)]]]]]
=======================================================================

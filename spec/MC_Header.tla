--------------------------- MODULE MC_Header ---------------------------
(* C11 at the design level.  Over ALL strings s of length <= N over one    *)
(* representative byte per character class, placed after a fixed header   *)
(* prefix:                                                                 *)
(*   Agree   the scanning recogniser ParseHeader and the byte-at-a-time    *)
(*           DFA accept exactly the same lines                             *)
(*   Verbatim accepted options are reported verbatim, in order             *)
(* and for all small option maps  ParseHeader(RenderHeader(id, opts))      *)
(* returns the same id and the options sorted by key (RenderParse).        *)
EXTENDS Integers, Sequences, TLC, Header
CONSTANTS N
VARIABLES s
(* a Z 7 _ - . / = , SP TAB # : + 0xC3 *)
Alphabet == {97, 90, 55, 95, 45, 46, 47, 61, 44, 32, 9, 35, 58, 43, 195}
(* "#..meta: length=3, " *)
Prefix == <<35,46,46,109,101,116,97,58,32,108,101,110,103,116,104,61,51,44,32>>
(* "#..meta:" - the string then has to supply its own leading space *)
Prefix2 == <<35,46,46,109,101,116,97,58>>
Init == s = <<>>
Next == \E b \in Alphabet : Len(s) < N /\ s' = Append(s, b)
Spec == Init /\ [][Next]_s
Agree == /\ ParseHeader(Prefix \o s).ok = DfaAccepts(Prefix \o s)
         /\ ParseHeader(Prefix2 \o s).ok = DfaAccepts(Prefix2 \o s)
         /\ ParseHeader(s).ok = DfaAccepts(s)
(* re-joining the reported pairs gives back the option string *)
Verbatim == LET h == ParseHeader(Prefix2 \o s) IN
            h.ok /\ s # <<>> =>
              s = <<32>> \o FlattenSeq([i \in 1..Len(h.opts) |->
                     (IF i > 1 THEN <<44, 32>> ELSE <<>>) \o h.opts[i].k \o <<61>> \o h.opts[i].v])
Keys == {<<97>>, <<98,45>>, <<90,95,57>>}
Vals == {<<49>>, <<120,47,121>>, <<45>>, <<46,46>>}
RenderParse ==
  \A id \in LegalIds : \A ks \in SUBSET Keys : \A v \in Vals :
    LET kseq == SetToSeq(ks)
        opts == [i \in 1..Len(kseq) |-> [k |-> kseq[i], v |-> v]]
        line == RenderHeader(id, opts)
        h == ParseHeader(SubSeq(line, 1, Len(line) - 1)) IN
    /\ h.ok /\ SecId(h.level, h.name) = id /\ line[Len(line)] = 10
    /\ Len(h.opts) = Len(opts)
    /\ \A i \in 1..(Len(h.opts) - 1) : Less(h.opts[i].k, h.opts[i+1].k)
    /\ {h.opts[i] : i \in 1..Len(h.opts)} = {opts[i] : i \in 1..Len(opts)}
=======================================================================

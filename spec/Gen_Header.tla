--------------------------- MODULE Gen_Header ---------------------------
(* Direction A for C11: TLC walks only the LIVE prefixes of the header DFA *)
(* (states from which acceptance is still possible syntactically) and      *)
(* emits the complete set Acc(N) of option strings of length <= N that the *)
(* specification accepts after the prefix "#..meta: length=3, x=1" - every *)
(* other string over the alphabet is, by the specification, rejected.      *)
EXTENDS Integers, Sequences, TLC, Json, Header
CONSTANTS N, Which     \* Which = 1: after a complete option "x=1"; 2: in value position after "x="
VARIABLES s, d
Alphabet == {97, 90, 55, 95, 45, 46, 47, 61, 44, 32, 9, 35, 58, 43, 195}
(* "#..meta: length=3, x=1" *)
Prefix == <<35,46,46,109,101,116,97,58,32,108,101,110,103,116,104,61,51,44,32,120,61,49>>
Prefix2 == SubSeq(Prefix, 1, Len(Prefix) - 1)
Init == s = <<>> /\ d = DRun(D0, IF Which = 1 THEN Prefix ELSE Prefix2, 1)
Next == \E b \in Alphabet :
          /\ Len(s) < N /\ DStep(d, b).q # "dead"
          /\ s' = Append(s, b) /\ d' = DStep(d, b)
Spec == Init /\ [][Next]_<<s, d>>
Emit == DAccepting(d) => PrintT(<<"BEH", ToJson([s |-> s])>>)
=======================================================================

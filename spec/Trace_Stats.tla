-------------------------- MODULE Trace_Stats --------------------------
(* Direction B for C13.  case: [id, tree (before), after (metas in          *)
(* document order after DiffX.generate_stats()), after2 (after a second     *)
(* call), exc]                                                              *)
EXTENDS Integers, Sequences, TLC, Json, IOUtils, Stats
VARIABLES i
Cases == ndJsonDeserialize(IOEnv.TRACE_FILE)
TraceTables == JsonDeserialize(IOEnv.TABLES_FILE)
RECURSIVE FirstDiff(_,_,_)
FirstDiff(a, b, n) ==
  IF n > Len(a) /\ n > Len(b) THEN 0 ELSE IF n > Len(a) \/ n > Len(b) THEN n
  ELSE IF a[n] # b[n] THEN n ELSE FirstDiff(a, b, n + 1)
Verdict(c) ==
  IF AnyUnspec(c.tree) THEN [s |-> "SKIP", w |-> "diff-outside-model"]
  ELSE IF c.exc # "" THEN [s |-> "FAIL", w |-> "raised-" \o c.exc]
  ELSE LET exp == Metas(GenAll(c.tree))
           got == [n \in 1..Len(c.after) |-> SortKeys(c.after[n])]
           got2 == [n \in 1..Len(c.after2) |-> SortKeys(c.after2[n])]
           d == FirstDiff(exp, got, 1) IN
    IF d # 0 THEN [s |-> "FAIL", w |-> IF d = 1 THEN "main-metadata-differs"
                                       ELSE "section-metadata-differs-at-" \o ToString(d)]
    ELSE IF got2 # got THEN [s |-> "FAIL", w |-> "generating-twice-differs-from-once"]
    ELSE [s |-> "ok", w |-> ""]
Init == i = 1
Next == /\ i <= Len(Cases)
        /\ LET v == Verdict(Cases[i]) IN PrintT(<<"V", Cases[i].id, v.s, i, v.w>>)
        /\ i' = i + 1
Spec == Init /\ [][Next]_i
=======================================================================

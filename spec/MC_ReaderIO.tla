-------------------------- MODULE MC_ReaderIO --------------------------
(* ReaderIO over ALL streams up to MaxLen of a five letter alphabet with   *)
(* a toy header language, the block size chosen afresh at every read:      *)
(*   LF alone (or spaces + LF)  blank line                                 *)
(*   line starting with '2'     content header announcing 2 bytes          *)
(*   line starting with '0'     content header announcing 0 bytes          *)
(*   line starting with '!'     not a header (the reader stops)            *)
(*   any other line             container header                           *)
EXTENDS ReaderIO
CONSTANTS MaxLen, MaxChunk
ToyWant(line) ==
  IF \A k \in 1..Len(line) : line[k] \in {10, 32} THEN -2
  ELSE IF line[1] = 50 THEN 2 ELSE IF line[1] = 48 THEN 0 ELSE IF line[1] = 33 THEN -3 ELSE -1
Alphabet == {10, 32, 50, 120, 33}
RECURSIVE Streams(_)
Streams(n) == IF n = 0 THEN {<<>>} ELSE LET s == Streams(n - 1) IN s \cup {Append(f, b) : f \in s, b \in Alphabet}
Init == \E s \in Streams(MaxLen) : IOStart(s)
Next == \/ \E n \in 1..MaxChunk : ReadMiss(n) \/ ReadHit(n) \/ ReadEof(n)
        \/ ReadContent
        \/ Yield
Spec == Init /\ [][Next]_iovars
(* sanity of the invariants: a reader that forgets to seek back must be caught by them *)
BadNext == \/ \E n \in 1..MaxChunk : ReadMiss(n) \/ ReadHitG(n, FALSE) \/ ReadEof(n)
           \/ ReadContent \/ Yield
BadSpec == Init /\ [][BadNext]_iovars
FairSpec == Spec /\ WF_iovars(Next)
Terminates == <>Ended
=======================================================================

-------------------------- MODULE Gen_Writer --------------------------
(* Direction A: TLC enumerates behaviours of the writer's order/scope     *)
(* machine (contents abstracted to pool indices); the harness concretises *)
(* each abstract call and steps the REAL writer through it.               *)
(*   hist : the behaviour so far - a sequence of [op, e, v, ok]           *)
(*          op  call name, e index into the encoding pool (0 = no         *)
(*          encoding argument), v index into the op's argument-variant    *)
(*          pool, ok whether the specification accepts the call (order),  *)
(*          st the order state after the call                             *)
(* Exhaustive mode: all behaviours with Len(hist) = MaxLen that contain   *)
(* at most MaxRej rejected calls.  Simulation mode (-simulate): random    *)
(* walks of the same machine.  Behaviours are printed as JSON at MaxLen.  *)
EXTENDS Integers, Sequences, TLC, Json, Sections
CONSTANTS MaxLen, MaxRej, NEnc, NVar, ContentEnc   \* ContentEnc: do content calls vary their encoding argument?
VARIABLES prev, hist, nrej
vars == <<prev, hist, nrej>>
Ops == {"change", "file", "preamble", "meta", "diff"}
Target(op) == IF op = "change" THEN ".change" ELSE IF op = "file" THEN "..file"
              ELSE SecId(OpenLevel(prev) + 1, op)
Init == prev = "diffx" /\ hist = <<>> /\ nrej = 0
Step(op, e, v) ==
  LET c == Target(op)  ok == c \in LegalIds /\ c \in FollowOf(prev) IN
  /\ Len(hist) < MaxLen
  /\ ok \/ nrej < MaxRej
  /\ hist' = Append(hist, [op |-> op, e |-> e, v |-> v, ok |-> ok, st |-> IF ok THEN c ELSE prev])
  /\ prev' = IF ok THEN c ELSE prev
  /\ nrej' = IF ok THEN nrej ELSE nrej + 1
Next == \E op \in Ops, v \in 0..NVar :
          \E e \in (IF op \in {"change", "file"} \/ ContentEnc THEN 0..NEnc ELSE {0}) : Step(op, e, v)
Spec == Init /\ [][Next]_vars
Emit == Len(hist) = MaxLen => PrintT(<<"BEH", ToJson(hist)>>)
=======================================================================

---------------------------- MODULE Codec ----------------------------
(* Text codecs as the DiffX specification needs them (encodings.rst):    *)
(* encode a code-point sequence, encode a newline WITHOUT byte-order     *)
(* mark, decode a byte sequence (total: value or failure).               *)
(*                                                                       *)
(* A codec is a record [fam, tid].  The Unicode transformation formats,  *)
(* ASCII and Latin-1 are specified arithmetically.  Every other codec    *)
(* ("table" family: cp1252, cp037, shift_jis, ...) is a per-character    *)
(* table Tables[tid] = [enc, dec] supplied with the trace batch and      *)
(* computed from the CANONICAL codec (trusted base, see DESIGN.md 9).    *)
(* fam = "unknown" is a name that is not a usable text codec.            *)
EXTENDS Integers, Sequences, SequencesExt, TLC, Bytes

CONSTANT Tables     \* record: tid -> [enc: record "cp" -> bytes, dec: record "b-b.." -> cp]

C(fam) == [fam |-> fam, tid |-> ""]
ArithFams == {"utf-8", "utf-8-sig", "utf-16", "utf-16-le", "utf-16-be",
              "utf-32", "utf-32-le", "utf-32-be", "latin-1", "ascii"}

IsSurr(c) == c >= 55296 /\ c <= 57343

Utf8One(c) ==
  IF c < 128 THEN <<c>>
  ELSE IF c < 2048 THEN <<192 + (c \div 64), 128 + (c % 64)>>
  ELSE IF c < 65536 THEN <<224 + (c \div 4096), 128 + ((c \div 64) % 64), 128 + (c % 64)>>
  ELSE <<240 + (c \div 262144), 128 + ((c \div 4096) % 64), 128 + ((c \div 64) % 64), 128 + (c % 64)>>
U16Unit(u, le) == IF le THEN <<u % 256, u \div 256>> ELSE <<u \div 256, u % 256>>
Utf16One(c, le) ==
  IF c < 65536 THEN U16Unit(c, le)
  ELSE LET v == c - 65536 IN U16Unit(55296 + (v \div 1024), le) \o U16Unit(56320 + (v % 1024), le)
Utf32One(c, le) ==
  LET b0 == c % 256  b1 == (c \div 256) % 256  b2 == (c \div 65536) % 256  b3 == c \div 16777216 IN
  IF le THEN <<b0, b1, b2, b3>> ELSE <<b3, b2, b1, b0>>

(* platform byte order of the BOM-emitting generic names is little endian
   (the implementation runs on a little-endian host; DESIGN.md 5) *)
One(codec, c) ==
  CASE codec.fam \in {"utf-8", "utf-8-sig"} -> Utf8One(c)
    [] codec.fam \in {"utf-16", "utf-16-le"} -> Utf16One(c, TRUE)
    [] codec.fam = "utf-16-be" -> Utf16One(c, FALSE)
    [] codec.fam \in {"utf-32", "utf-32-le"} -> Utf32One(c, TRUE)
    [] codec.fam = "utf-32-be" -> Utf32One(c, FALSE)
    [] codec.fam \in {"latin-1", "ascii"} -> <<c>>
    [] codec.fam = "table" -> Tables[codec.tid].enc[ToString(c)]

CanEncOne(codec, c) ==
  CASE codec.fam = "ascii" -> c < 128
    [] codec.fam = "latin-1" -> c < 256
    [] codec.fam = "table" -> ToString(c) \in DOMAIN Tables[codec.tid].enc
    [] codec.fam = "unknown" -> FALSE
    [] OTHER -> ~IsSurr(c) /\ c <= 1114111
CanEnc(codec, cps) == \A i \in 1..Len(cps) : CanEncOne(codec, cps[i])

Bom(codec) ==
  CASE codec.fam = "utf-8-sig" -> <<239, 187, 191>>
    [] codec.fam = "utf-16" -> <<255, 254>>
    [] codec.fam = "utf-32" -> <<255, 254, 0, 0>>
    [] OTHER -> <<>>
EncNoBOM(codec, cps) == FlattenSeq([i \in 1..Len(cps) |-> One(codec, cps[i])])
(* Python's incremental/one-shot encoders emit the BOM once, at the start *)
Enc(codec, cps) == Bom(codec) \o EncNoBOM(codec, cps)
(* encodings.rst: the newline of a section is LF or CR LF in the section's
   encoding, never carrying a byte-order mark *)
NL(codec, kind) == EncNoBOM(codec, IF kind = "dos" THEN <<13, 10>> ELSE <<10>>)
AsciiC == C("ascii")

(* ---------------------------- decoders ---------------------------- *)
Bad == [ok |-> FALSE, unspec |-> FALSE, cps |-> <<>>]
Unk == [ok |-> FALSE, unspec |-> TRUE, cps |-> <<>>]
Good(c) == [ok |-> TRUE, unspec |-> FALSE, cps |-> c]
Cont(b) == b >= 128 /\ b <= 191
RECURSIVE U8(_,_,_)
U8(b, p, acc) ==
  IF p > Len(b) THEN Good(acc)
  ELSE LET x == b[p] n == Len(b) IN
    IF x < 128 THEN U8(b, p + 1, Append(acc, x))
    ELSE IF x >= 194 /\ x <= 223 THEN
      IF p + 1 <= n /\ Cont(b[p+1]) THEN U8(b, p + 2, Append(acc, (x - 192) * 64 + (b[p+1] - 128))) ELSE Bad
    ELSE IF x >= 224 /\ x <= 239 THEN
      IF p + 2 <= n /\ Cont(b[p+1]) /\ Cont(b[p+2]) THEN
        LET c == (x - 224) * 4096 + (b[p+1] - 128) * 64 + (b[p+2] - 128) IN
        IF c >= 2048 /\ ~IsSurr(c) THEN U8(b, p + 3, Append(acc, c)) ELSE Bad
      ELSE Bad
    ELSE IF x >= 240 /\ x <= 244 THEN
      IF p + 3 <= n /\ Cont(b[p+1]) /\ Cont(b[p+2]) /\ Cont(b[p+3]) THEN
        LET c == (x - 240) * 262144 + (b[p+1] - 128) * 4096 + (b[p+2] - 128) * 64 + (b[p+3] - 128) IN
        IF c >= 65536 /\ c <= 1114111 THEN U8(b, p + 4, Append(acc, c)) ELSE Bad
      ELSE Bad
    ELSE Bad
Unit16(b, p, le) == IF le THEN b[p] + 256 * b[p+1] ELSE 256 * b[p] + b[p+1]
RECURSIVE U16(_,_,_,_)
U16(b, p, le, acc) ==
  IF p > Len(b) THEN Good(acc)
  ELSE IF p + 1 > Len(b) THEN Bad
  ELSE LET u == Unit16(b, p, le) IN
    IF u >= 55296 /\ u <= 56319 THEN
      IF p + 3 <= Len(b) THEN
        LET v == Unit16(b, p + 2, le) IN
        IF v >= 56320 /\ v <= 57343 THEN U16(b, p + 4, le, Append(acc, 65536 + (u - 55296) * 1024 + (v - 56320))) ELSE Bad
      ELSE Bad
    ELSE IF u >= 56320 /\ u <= 57343 THEN Bad
    ELSE U16(b, p + 2, le, Append(acc, u))
Unit32(b, p, le) == IF le THEN b[p] + 256 * b[p+1] + 65536 * b[p+2] + 16777216 * (b[p+3] % 128)
                          ELSE 16777216 * (b[p] % 128) + 65536 * b[p+1] + 256 * b[p+2] + b[p+3]
Hi32(b, p, le) == IF le THEN b[p+3] ELSE b[p]
RECURSIVE U32(_,_,_,_)
U32(b, p, le, acc) ==
  IF p > Len(b) THEN Good(acc)
  ELSE IF p + 3 > Len(b) THEN Bad
  ELSE IF Hi32(b, p, le) # 0 THEN Bad
  ELSE LET c == Unit32(b, p, le) IN
    IF c > 1114111 \/ IsSurr(c) THEN Bad ELSE U32(b, p + 4, le, Append(acc, c))
RECURSIVE Single(_,_,_,_)
Single(b, p, max, acc) == IF p > Len(b) THEN Good(acc) ELSE IF b[p] > max THEN Bad ELSE Single(b, p + 1, max, Append(acc, b[p]))

(* table decoding: longest-lead lookup of 1..4 bytes in the inverse table;
   a byte sequence the shipped table does not cover is UNSPECIFIED (Unk),
   never claimed decodable or undecodable *)
Key1(b, p) == ToString(b[p])
Key2(b, p) == ToString(b[p]) \o "-" \o ToString(b[p+1])
Key3(b, p) == Key2(b, p) \o "-" \o ToString(b[p+2])
Key4(b, p) == Key3(b, p) \o "-" \o ToString(b[p+3])
RECURSIVE TDec(_,_,_,_)
TDec(d, b, p, acc) ==
  IF p > Len(b) THEN Good(acc)
  ELSE IF Key1(b, p) \in DOMAIN d THEN TDec(d, b, p + 1, Append(acc, d[Key1(b, p)]))
  ELSE IF p + 1 <= Len(b) /\ Key2(b, p) \in DOMAIN d THEN TDec(d, b, p + 2, Append(acc, d[Key2(b, p)]))
  ELSE IF p + 2 <= Len(b) /\ Key3(b, p) \in DOMAIN d THEN TDec(d, b, p + 3, Append(acc, d[Key3(b, p)]))
  ELSE IF p + 3 <= Len(b) /\ Key4(b, p) \in DOMAIN d THEN TDec(d, b, p + 4, Append(acc, d[Key4(b, p)]))
  ELSE Unk

Dec(codec, b) ==
  CASE codec.fam = "utf-8" -> U8(b, 1, <<>>)
    [] codec.fam = "utf-8-sig" -> IF StartsWith(b, <<239,187,191>>) THEN U8(b, 4, <<>>) ELSE U8(b, 1, <<>>)
    [] codec.fam = "utf-16" -> IF StartsWith(b, <<255,254>>) THEN U16(b, 3, TRUE, <<>>)
                               ELSE IF StartsWith(b, <<254,255>>) THEN U16(b, 3, FALSE, <<>>) ELSE U16(b, 1, TRUE, <<>>)
    [] codec.fam = "utf-16-le" -> U16(b, 1, TRUE, <<>>)
    [] codec.fam = "utf-16-be" -> U16(b, 1, FALSE, <<>>)
    [] codec.fam = "utf-32" -> IF StartsWith(b, <<255,254,0,0>>) THEN U32(b, 5, TRUE, <<>>)
                               ELSE IF StartsWith(b, <<0,0,254,255>>) THEN U32(b, 5, FALSE, <<>>) ELSE U32(b, 1, TRUE, <<>>)
    [] codec.fam = "utf-32-le" -> U32(b, 1, TRUE, <<>>)
    [] codec.fam = "utf-32-be" -> U32(b, 1, FALSE, <<>>)
    [] codec.fam = "latin-1" -> Single(b, 1, 255, <<>>)
    [] codec.fam = "ascii" -> Single(b, 1, 127, <<>>)
    [] codec.fam = "table" -> TDec(Tables[codec.tid].dec, b, 1, <<>>)
    [] OTHER -> Bad
=======================================================================

--------------------------- MODULE MC_Split ---------------------------
(* C16 on the specification of line splitting itself (Bytes.tla):          *)
(* for ALL byte strings up to MaxLen over Alphabet and the newline NL      *)
(*   Lossless    Flatten(SplitKeep(d)) = d                                 *)
(*   Terminated  every line but possibly the last ends with the newline    *)
(*               and contains it nowhere else; an unterminated last line   *)
(*               does not contain it                                       *)
(*   Counted     #lines = #occurrences (+1 if d does not end with it)      *)
(*   TwoModes    SplitDrop = SplitKeep minus exactly one trailing newline  *)
(*               from each terminated line                                 *)
EXTENDS Integers, Sequences, TLC, Bytes
CONSTANTS MaxLen, Alphabet, NLSeq
VARIABLES d
Init == d = <<>>
Next == \E b \in Alphabet : Len(d) < MaxLen /\ d' = Append(d, b)
Spec == Init /\ [][Next]_d
K == SplitKeep(d, NLSeq)
Dr == SplitDrop(d, NLSeq)
Lossless == d # <<>> => FlattenSeq(K) = d
Terminated == d # <<>> =>
  \A i \in 1..Len(K) :
    IF i < Len(K) \/ EndsWith(d, NLSeq)
    THEN EndsWith(K[i], NLSeq) /\ Find(K[i], NLSeq, 1) = Len(K[i]) - Len(NLSeq) + 1
    ELSE Find(K[i], NLSeq, 1) = 0
Counted == d # <<>> => Len(K) = Count(d, NLSeq) + (IF EndsWith(d, NLSeq) THEN 0 ELSE 1)
TwoModes == d # <<>> =>
  /\ Len(Dr) = Len(K)
  /\ \A i \in 1..Len(K) :
       Dr[i] = IF EndsWith(K[i], NLSeq) /\ (i < Len(K) \/ EndsWith(d, NLSeq))
               THEN SubSeq(K[i], 1, Len(K[i]) - Len(NLSeq)) ELSE K[i]
(* the two formulations of Bytes!Find (one step per byte for short sequences, one per window for long ones) agree *)
FindAgree == \A p \in 1..(Len(d) + 2) : \A sub \in {NLSeq, <<>>} \cup (IF d = <<>> THEN {} ELSE {SubSeq(d, 1, 1), SubSeq(d, Len(d), Len(d))}) :
               \A k \in {1, 2, 3, 256} : FindRec(d, sub, p) = FindWin(d, sub, p, k)
(* the ten newline sequences the library uses *)
NL_LF == <<10>>
NL_CRLF == <<13, 10>>
NL_LF16LE == <<10, 0>>
NL_LF16BE == <<0, 10>>
NL_CRLF16LE == <<13, 0, 10, 0>>
NL_CRLF16BE == <<0, 13, 0, 10>>
NL_LF32LE == <<10, 0, 0, 0>>
NL_LF32BE == <<0, 0, 0, 10>>
NL_CRLF32LE == <<13, 0, 0, 0, 10, 0, 0, 0>>
NL_CRLF32BE == <<0, 0, 0, 13, 0, 0, 0, 10>>
=======================================================================

---------------------------- MODULE Hunks ----------------------------
(* Unified-diff hunk parsing (C14), from the property statement, the      *)
(* documented return value of get_unified_diff_hunks and N13 (DESIGN.md). *)
(*                                                                        *)
(* Classify : bytes of one line -> kind                                   *)
(*   "H" hunk header "@@ -S[,N] +S[,N] @@[ context]"  (counts default 1)  *)
(*   "A" any other line starting with "@@"                                *)
(*   "D" "-..."   "I" "+..."   "C" " ..."                                 *)
(*   "M" the "\ No newline at end of file" marker (surrounding ASCII      *)
(*       whitespace ignored, but not a leading space: that is context)    *)
(*   "G" anything else                                                    *)
(* HStep    : the per-line machine (implementation shaped, L3)            *)
(* Geometry : what the result must be for a DESCRIPTION of well-formed    *)
(*            hunks - computed from the description, not by the machine   *)
(*            (L1); MC_Hunks checks RunHunks(Concretise(d)) = Geometry(d) *)
EXTENDS Integers, Sequences, SequencesExt, Bytes

NoLine == -100
Marker == <<92,32,78,111,32,110,101,119,108,105,110,101,32,97,116,32,101,110,100,32,111,102,32,102,105,108,101>>
IsWsB(b) == b \in {32, 9, 10, 13, 11, 12}
RECURSIVE LStrip(_,_)
LStrip(l, p) == IF p <= Len(l) /\ IsWsB(l[p]) THEN LStrip(l, p + 1) ELSE p
RECURSIVE RStrip(_,_)
RStrip(l, p) == IF p >= 1 /\ IsWsB(l[p]) THEN RStrip(l, p - 1) ELSE p
StripWs(l) == SubSeq(l, LStrip(l, 1), RStrip(l, Len(l)))
IsD(b) == b >= 48 /\ b <= 57
RECURSIVE Digs(_,_)
Digs(l, p) == IF p <= Len(l) /\ IsD(l[p]) THEN Digs(l, p + 1) ELSE p
RECURSIVE NumVal(_,_,_,_)
NumVal(l, p, q, acc) == IF p >= q THEN acc ELSE NumVal(l, p + 1, q, acc * 10 + (l[p] - 48))
(* parse "S[,N]" at p: [ok, s, n, p, big] *)
HRange(l, p) ==
  LET e1 == Digs(l, p) IN
  IF e1 = p THEN [ok |-> FALSE, s |-> 0, n |-> 0, p |-> p, big |-> FALSE]
  ELSE IF e1 <= Len(l) /\ l[e1] = 44 /\ Digs(l, e1 + 1) > e1 + 1 THEN
       LET e2 == Digs(l, e1 + 1) IN
       [ok |-> TRUE, s |-> IF e1 - p > 9 THEN 0 ELSE NumVal(l, p, e1, 0),
        n |-> IF e2 - e1 - 1 > 9 THEN 0 ELSE NumVal(l, e1 + 1, e2, 0), p |-> e2,
        big |-> e1 - p > 9 \/ e2 - e1 - 1 > 9]
  ELSE [ok |-> TRUE, s |-> IF e1 - p > 9 THEN 0 ELSE NumVal(l, p, e1, 0), n |-> 1, p |-> e1, big |-> e1 - p > 9]
NoCtx == [has |-> FALSE, b |-> <<>>]
Plain(k) == [k |-> k, os |-> 0, on |-> 0, ms |-> 0, mn |-> 0, ctx |-> NoCtx, big |-> FALSE]
\* header: "@@ -" digits ["," digits] " +" digits ["," digits] " @@" then end of line or " " and any context
HeaderOf(l) ==
  IF ~StartsWith(l, <<64,64,32,45>>) THEN Plain("A")
  ELSE LET a == HRange(l, 5) IN
    IF ~a.ok \/ ~HasAt(l, <<32,43>>, a.p) THEN Plain("A")
    ELSE LET b == HRange(l, a.p + 2) IN
      IF ~b.ok \/ ~HasAt(l, <<32,64,64>>, b.p) THEN Plain("A")
      ELSE LET e == b.p + 3 IN
        IF e > Len(l) THEN [k |-> "H", os |-> a.s, on |-> a.n, ms |-> b.s, mn |-> b.n, ctx |-> NoCtx, big |-> a.big \/ b.big]
        ELSE IF l[e] = 32 THEN [k |-> "H", os |-> a.s, on |-> a.n, ms |-> b.s, mn |-> b.n,
                                ctx |-> [has |-> TRUE, b |-> SubSeq(l, e + 1, Len(l))], big |-> a.big \/ b.big]
        ELSE Plain("A")
Classify(l) ==
  IF StartsWith(l, <<64,64>>) THEN HeaderOf(l)
  ELSE IF l # <<>> /\ l[1] = 45 THEN Plain("D")
  ELSE IF l # <<>> /\ l[1] = 43 THEN Plain("I")
  ELSE IF l # <<>> /\ l[1] = 32 THEN Plain("C")
  ELSE IF StripWs(l) = Marker THEN Plain("M")
  ELSE Plain("G")

(* ------------------------- the per-line machine ------------------------ *)
Side(start, num) == [start |-> start - 1, num |-> num, first |-> NoLine, last |-> NoLine, changed |-> 0]
Min2(a, b) == IF a < b THEN a ELSE b
Finish(h) ==
  LET preO == IF h.o.first # NoLine THEN <<h.o.first - h.o.start>> ELSE <<>>
      preM == IF h.m.first # NoLine THEN <<h.m.first - h.m.start>> ELSE <<>>
      postO == IF h.o.last # NoLine THEN <<h.o.num - (h.o.last - h.o.start + 1)>> ELSE <<>>
      postM == IF h.m.last # NoLine THEN <<h.m.num - (h.m.last - h.m.start + 1)>> ELSE <<>>
      mn(s) == IF s = <<>> THEN 0 ELSE IF Len(s) = 1 THEN s[1] ELSE Min2(s[1], s[2])
  IN [o |-> h.o, m |-> h.m, pre |-> mn(preO \o preM), post |-> mn(postO \o postM), ctx |-> h.ctx]
H0 == [o |-> Side(1, 1), m |-> Side(1, 1), ctx |-> NoCtx]
(* status: "run" | "stopped" (non-hunk line without garbage tolerance) | "malformed" | "unspec" *)
S0 == [status |-> "run", hunks |-> <<>>, inh |-> FALSE, h |-> H0, oi |-> 0, mi |-> 0,
       tdel |-> 0, tins |-> 0, n |-> 0, errline |-> 0]
MaybeFinish(s) ==
  IF s.inh /\ s.oi >= s.h.o.num /\ s.mi >= s.h.m.num
  THEN [s EXCEPT !.hunks = Append(s.hunks, Finish(s.h)), !.inh = FALSE, !.oi = 0, !.mi = 0]
  ELSE s
(* consume classified line l as line number s.n + 1 *)
HStep(s0, l, ignore) ==
  LET s == [s0 EXCEPT !.n = @ + 1] IN
  IF l.big THEN [s EXCEPT !.status = "unspec"]
  ELSE IF l.k = "H" THEN
    IF s.inh THEN [s EXCEPT !.status = "malformed", !.errline = s.n]
    ELSE MaybeFinish([s EXCEPT !.inh = TRUE, !.oi = 0, !.mi = 0,
                               !.h = [o |-> Side(l.os, l.on), m |-> Side(l.ms, l.mn), ctx |-> l.ctx]])
  ELSE IF s.inh /\ l.k = "D" THEN
    LET pos == s.h.o.start + s.oi
        o2 == [s.h.o EXCEPT !.first = IF @ = NoLine THEN pos ELSE @, !.last = pos, !.changed = @ + 1] IN
    MaybeFinish([s EXCEPT !.h.o = o2, !.oi = @ + 1, !.tdel = @ + 1])
  ELSE IF s.inh /\ l.k = "I" THEN
    LET pos == s.h.m.start + s.mi
        m2 == [s.h.m EXCEPT !.first = IF @ = NoLine THEN pos ELSE @, !.last = pos, !.changed = @ + 1] IN
    MaybeFinish([s EXCEPT !.h.m = m2, !.mi = @ + 1, !.tins = @ + 1])
  ELSE IF s.inh /\ l.k = "C" THEN MaybeFinish([s EXCEPT !.oi = @ + 1, !.mi = @ + 1])
  ELSE IF s.inh /\ l.k = "M" THEN MaybeFinish(s)
  ELSE \* a non-hunk line: D/I/C/M outside a hunk, "A", "G"
    IF s.inh THEN [s EXCEPT !.status = "malformed", !.errline = s.n]
    ELSE IF ignore THEN s
    ELSE [s EXCEPT !.status = "stopped", !.n = @ - 1]       \* this line is not consumed

Result(s) ==
  IF s.status = "unspec" THEN [err |-> "unspec", line |-> 0, hunks |-> <<>>, nproc |-> 0, tdel |-> 0, tins |-> 0]
  ELSE IF s.status = "malformed" THEN [err |-> "hunk", line |-> s.errline, hunks |-> <<>>, nproc |-> 0, tdel |-> 0, tins |-> 0]
  ELSE IF s.inh THEN [err |-> "hunk", line |-> s.n, hunks |-> <<>>, nproc |-> 0, tdel |-> 0, tins |-> 0]   \* ends early
  ELSE [err |-> "none", line |-> 0, hunks |-> s.hunks, nproc |-> s.n, tdel |-> s.tdel, tins |-> s.tins]
RECURSIVE RunFrom(_,_,_,_)
RunFrom(s, ls, i, ignore) ==
  IF i > Len(ls) \/ s.status # "run" THEN s ELSE RunFrom(HStep(s, ls[i], ignore), ls, i + 1, ignore)
(* ls: sequence of classified lines *)
RunHunks(ls, ignore) == Result(RunFrom(S0, ls, 1, ignore))
RunBytes(lines, ignore) == RunHunks([i \in 1..Len(lines) |-> Classify(lines[i])], ignore)

(* --------------------- declarative geometry (L1) ---------------------- *)
(* A hunk description: [os, ms, body] with body a sequence over
   {"C","D","I","M"}; its header counts FOLLOW from the body. *)
CountK(body, ks) == Len(SelectSeq(body, LAMBDA x : x \in ks))
OCount(d) == CountK(d.body, {"C", "D"})
MCount(d) == CountK(d.body, {"C", "I"})
(* index (1-based) in body of the first / last line of kind k; 0 if none *)
FirstIdx(body, k) == IF \E i \in 1..Len(body) : body[i] = k
                     THEN CHOOSE i \in 1..Len(body) : body[i] = k /\ \A j \in 1..(i-1) : body[j] # k ELSE 0
LastIdx(body, k) == IF \E i \in 1..Len(body) : body[i] = k
                    THEN CHOOSE i \in 1..Len(body) : body[i] = k /\ \A j \in (i+1)..Len(body) : body[j] # k ELSE 0
(* number of side lines (ks) strictly before body index i *)
Before(body, i, ks) == CountK(SubSeq(body, 1, i - 1), ks)
GeoSide(d, start, k, ks) ==
  LET f == FirstIdx(d.body, k)  l == LastIdx(d.body, k) IN
  [start |-> start - 1, num |-> CountK(d.body, ks),
   first |-> IF f = 0 THEN NoLine ELSE start - 1 + Before(d.body, f, ks),
   last |-> IF l = 0 THEN NoLine ELSE start - 1 + Before(d.body, l, ks),
   changed |-> CountK(d.body, {k})]
GeoHunk(d) ==
  LET o == GeoSide(d, d.os, "D", {"C", "D"})
      m == GeoSide(d, d.ms, "I", {"C", "I"})
      pres == (IF o.first # NoLine THEN {o.first - o.start} ELSE {}) \cup (IF m.first # NoLine THEN {m.first - m.start} ELSE {})
      posts == (IF o.last # NoLine THEN {o.num - (o.last - o.start + 1)} ELSE {}) \cup (IF m.last # NoLine THEN {m.num - (m.last - m.start + 1)} ELSE {})
      minS(S) == IF S = {} THEN 0 ELSE CHOOSE x \in S : \A y \in S : x <= y
  IN [o |-> o, m |-> m, pre |-> minS(pres), post |-> minS(posts), ctx |-> NoCtx]
(* lines of a description: header + body, as classified lines *)
DescLines(d) ==
  << [k |-> "H", os |-> d.os, on |-> OCount(d), ms |-> d.ms, mn |-> MCount(d), ctx |-> NoCtx, big |-> FALSE] >>
  \o [i \in 1..Len(d.body) |-> Plain(d.body[i])]
(* A trailing marker (after both counts are satisfied) is not part of the hunk (N13):
   a description is CLOSED when its body does not end in such a marker. *)
Closed(d) == d.body = <<>> \/ d.body[Len(d.body)] # "M"
=======================================================================

---- MODULE Hunks ----
EXTENDS Integers, Sequences
\* A line is a record [k, os, on, ms, mn]; k \in
\*   "H" hunk header (os,on,ms,mn: 1-based starts and counts, counts already defaulted to 1 when omitted)
\*   "D" delete, "I" insert, "C" context, "M" no-newline marker,
\*   "A" line starting with "@@" that is not a header, "G" any other line
NoLine == -100
Side(start, num) == [start |-> start - 1, num |-> num, first |-> NoLine, last |-> NoLine, changed |-> 0]
Min(a, b) == IF a < b THEN a ELSE b
Finish(h) ==
  LET preO == IF h.o.first # NoLine THEN <<h.o.first - h.o.start>> ELSE <<>>
      preM == IF h.m.first # NoLine THEN <<h.m.first - h.m.start>> ELSE <<>>
      postO == IF h.o.last # NoLine THEN <<h.o.num - (h.o.last - h.o.start + 1)>> ELSE <<>>
      postM == IF h.m.last # NoLine THEN <<h.m.num - (h.m.last - h.m.start + 1)>> ELSE <<>>
      mn(s) == IF s = <<>> THEN 0 ELSE IF Len(s) = 1 THEN s[1] ELSE Min(s[1], s[2])
  IN [o |-> h.o, m |-> h.m, pre |-> mn(preO \o preM), post |-> mn(postO \o postM)]

\* state: [hunks, cur (in a hunk?), h, oi, mi, tdel, tins]
S0 == [hunks |-> <<>>, inh |-> FALSE, h |-> [o |-> Side(1,1), m |-> Side(1,1)], oi |-> 0, mi |-> 0, tdel |-> 0, tins |-> 0]
MaybeFinish(s) ==
  IF s.inh /\ s.oi >= s.h.o.num /\ s.mi >= s.h.m.num
  THEN [s EXCEPT !.hunks = Append(s.hunks, Finish(s.h)), !.inh = FALSE, !.oi = 0, !.mi = 0]
  ELSE s
Result(s, nproc) == [err |-> "none", line |-> 0, hunks |-> s.hunks, nproc |-> nproc, tdel |-> s.tdel, tins |-> s.tins]
Err(kind, n) == [err |-> kind, line |-> n, hunks |-> <<>>, nproc |-> 0, tdel |-> 0, tins |-> 0]

RECURSIVE Run(_,_,_,_)
Run(lines, ignore, s, n) ==      \* n = 1-based index of the line to process
  IF n > Len(lines)
  THEN IF s.inh THEN Err("eof", Len(lines)) ELSE Result(s, Len(lines))
  ELSE LET l == lines[n] IN
    IF l.k = "H" THEN
      IF s.inh THEN Err("malformed", n)
      ELSE Run(lines, ignore,
               MaybeFinish([s EXCEPT !.inh = TRUE, !.h = [o |-> Side(l.os, l.on), m |-> Side(l.ms, l.mn)], !.oi = 0, !.mi = 0]),
               n + 1)
    ELSE IF s.inh /\ l.k = "D" THEN
      LET pos == s.h.o.start + s.oi
          o2 == [s.h.o EXCEPT !.first = IF @ = NoLine THEN pos ELSE @, !.last = pos, !.changed = @ + 1] IN
      Run(lines, ignore, MaybeFinish([s EXCEPT !.h.o = o2, !.oi = @ + 1, !.tdel = @ + 1]), n + 1)
    ELSE IF s.inh /\ l.k = "I" THEN
      LET pos == s.h.m.start + s.mi
          m2 == [s.h.m EXCEPT !.first = IF @ = NoLine THEN pos ELSE @, !.last = pos, !.changed = @ + 1] IN
      Run(lines, ignore, MaybeFinish([s EXCEPT !.h.m = m2, !.mi = @ + 1, !.tins = @ + 1]), n + 1)
    ELSE IF s.inh /\ l.k = "C" THEN
      Run(lines, ignore, MaybeFinish([s EXCEPT !.oi = @ + 1, !.mi = @ + 1]), n + 1)
    ELSE IF s.inh /\ l.k = "M" THEN
      Run(lines, ignore, MaybeFinish(s), n + 1)
    ELSE \* a non-hunk line (includes D/I/C/M outside a hunk, "A", "G")
      IF s.inh THEN Err("malformed", n)
      ELSE IF ignore THEN Run(lines, ignore, s, n + 1)
      ELSE Result(s, n - 1)
RunHunks(lines, ignore) == Run(lines, ignore, S0, 1)
====

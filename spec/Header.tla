---------------------------- MODULE Header ----------------------------
(* Section header lines (docs/spec/section-format.rst):                  *)
(*   "#" dots{0,3} name ":" [ " " key "=" value ( ", " key "=" value )* ]*)
(*   key   = [A-Za-z][A-Za-z0-9_-]*      value = [A-Za-z0-9/._-]+        *)
(* Three independent formulations:                                       *)
(*   ParseHeader  - scanning recogniser that also returns the options    *)
(*   DfaAccepts   - a byte-at-a-time DFA (implementation shaped)         *)
(*   RenderHeader - the canonical writer side                            *)
(* MC_Header checks ParseHeader.ok = DfaAccepts on all short strings and *)
(* ParseHeader(RenderHeader(..)) = identity.                             *)
EXTENDS Integers, Sequences, SequencesExt, Bytes, Sections

IsAlpha(b) == (b >= 65 /\ b <= 90) \/ (b >= 97 /\ b <= 122)
IsDig(b) == b >= 48 /\ b <= 57
KeyStart(b) == IsAlpha(b)
KeyChar(b) == IsAlpha(b) \/ IsDig(b) \/ b = 95 \/ b = 45
ValChar(b) == IsAlpha(b) \/ IsDig(b) \/ b \in {47, 46, 95, 45}

Names == << <<100,105,102,102,120>>, <<112,114,101,97,109,98,108,101>>, <<109,101,116,97>>,
            <<99,104,97,110,103,101>>, <<102,105,108,101>>, <<100,105,102,102>> >>
NameStr == <<"diffx", "preamble", "meta", "change", "file", "diff">>
NameBytes(name) == Names[CHOOSE i \in 1..6 : NameStr[i] = name]
IdBytes(id) == Repeat(46, LevelOf(id)) \o NameBytes(NameOf(id))

NoHdr == [ok |-> FALSE, level |-> 0, name |-> "", opts |-> <<>>]
RECURSIVE CountDots(_,_)
CountDots(h, p) == IF p <= Len(h) /\ h[p] = 46 THEN 1 + CountDots(h, p + 1) ELSE 0
InCls(cls, b) == CASE cls = "key" -> KeyChar(b) [] cls = "val" -> ValChar(b) [] cls = "lower" -> (b >= 97 /\ b <= 122)
RECURSIVE ScanWhile(_,_,_)
ScanWhile(h, p, cls) == IF p <= Len(h) /\ InCls(cls, h[p]) THEN ScanWhile(h, p + 1, cls) ELSE p
(* parse "k=v(, k=v)*" starting at p *)
RECURSIVE Pairs(_,_,_)
Pairs(h, p, acc) ==
  IF p > Len(h) \/ ~KeyStart(h[p]) THEN [ok |-> FALSE, opts |-> <<>>]
  ELSE LET ke == ScanWhile(h, p + 1, "key") IN
    IF ke > Len(h) \/ h[ke] # 61 THEN [ok |-> FALSE, opts |-> <<>>]
    ELSE LET ve == ScanWhile(h, ke + 1, "val") IN
      IF ve = ke + 1 THEN [ok |-> FALSE, opts |-> <<>>]
      ELSE LET acc2 == Append(acc, [k |-> SubSeq(h, p, ke - 1), v |-> SubSeq(h, ke + 1, ve - 1)]) IN
        IF ve > Len(h) THEN [ok |-> TRUE, opts |-> acc2]
        ELSE IF ve + 1 <= Len(h) /\ h[ve] = 44 /\ h[ve + 1] = 32 THEN Pairs(h, ve + 2, acc2)
        ELSE [ok |-> FALSE, opts |-> <<>>]
(* h is the header line WITHOUT its line terminator *)
ParseHeader(h) ==
  IF Len(h) < 2 \/ h[1] # 35 THEN NoHdr
  ELSE LET nd == CountDots(h, 2) p == 2 + nd
           ne == ScanWhile(h, p, "lower")
           nm == SubSeq(h, p, ne - 1)
           idx == {i \in 1..6 : Names[i] = nm} IN
    IF nd > 3 \/ idx = {} \/ ne > Len(h) \/ h[ne] # 58 THEN NoHdr
    ELSE LET name == NameStr[CHOOSE i \in idx : TRUE] IN
      IF ne = Len(h) THEN [ok |-> TRUE, level |-> nd, name |-> name, opts |-> <<>>]
      ELSE IF h[ne + 1] # 32 THEN NoHdr
      ELSE LET r == Pairs(h, ne + 2, <<>>) IN
        IF r.ok THEN [ok |-> TRUE, level |-> nd, name |-> name, opts |-> r.opts] ELSE NoHdr

(* ------------------------- option values -------------------------- *)
(* N11: integer-valued iff -?[0-9]+ ; forms with "_" that Python's int()
   also takes are an unspecified zone *)
IsIntVal(v) == LET q == IF v[1] = 45 THEN 2 ELSE 1 IN q <= Len(v) /\ \A i \in q..Len(v) : IsDig(v[i])
IsUnspecIntVal(v) ==
  LET q == IF v[1] = 45 THEN 2 ELSE 1 IN
  /\ q <= Len(v) /\ ~IsIntVal(v)
  /\ \A i \in q..Len(v) : IsDig(v[i]) \/ v[i] = 95
  /\ IsDig(v[q]) /\ IsDig(v[Len(v)])
  /\ \A i \in q..(Len(v) - 1) : ~(v[i] = 95 /\ v[i+1] = 95)
RECURSIVE SkipZeros(_,_)
SkipZeros(v, p) == IF p < Len(v) /\ v[p] = 48 THEN SkipZeros(v, p + 1) ELSE p
(* canonical decimal text of an integer-valued option value (no arithmetic,
   so values beyond 32 bits are handled) *)
CanonInt(v) ==
  LET neg == v[1] = 45
      q == SkipZeros(v, IF neg THEN 2 ELSE 1)
      mag == SubSeq(v, q, Len(v)) IN
  IF mag = <<48>> THEN mag ELSE IF neg THEN <<45>> \o mag ELSE mag
RECURSIVE DigVal(_,_,_)
DigVal(v, p, acc) == IF p > Len(v) THEN acc ELSE DigVal(v, p + 1, acc * 10 + (v[p] - 48))
Small(v) == Len(CanonInt(v)) <= 9         \* stays inside TLC's 32-bit integers
IntOf(v) == LET c == CanonInt(v) IN IF c[1] = 45 THEN 0 - DigVal(c, 2, 0) ELSE DigVal(c, 1, 0)

(* an option as the reader reports it: key, value text, integer flag *)
Opt(k, v) == IF IsIntVal(v) THEN [k |-> k, s |-> CanonInt(v), i |-> TRUE]
             ELSE [k |-> k, s |-> v, i |-> FALSE]
Has(opts, k) == \E i \in 1..Len(opts) : opts[i].k = k
Get(opts, k) == opts[CHOOSE i \in 1..Len(opts) : opts[i].k = k /\ \A j \in (i+1)..Len(opts) : opts[j].k # k].v
(* the option MAP a header denotes: last occurrence wins; listed sorted by key *)
CanonOpts(opts) ==
  LET keep == SelectSeq([i \in 1..Len(opts) |-> [i |-> i, k |-> opts[i].k, v |-> opts[i].v]],
                        LAMBDA x : \A j \in (x.i+1)..Len(opts) : opts[j].k # x.k)
      srt == SortSeq(keep, LAMBDA x, y : Less(x.k, y.k)) IN
  [i \in 1..Len(srt) |-> Opt(srt[i].k, srt[i].v)]
AnyUnspecInt(opts) == \E i \in 1..Len(opts) : IsUnspecIntVal(opts[i].v)

K_len == <<108,101,110,103,116,104>>
K_enc == <<101,110,99,111,100,105,110,103>>
K_ind == <<105,110,100,101,110,116>>
K_le == <<108,105,110,101,95,101,110,100,105,110,103,115>>
K_fmt == <<102,111,114,109,97,116>>
K_ver == <<118,101,114,115,105,111,110>>
K_mime == <<109,105,109,101,116,121,112,101>>
K_type == <<116,121,112,101>>
V_10 == <<49,46,48>>
V_json == <<106,115,111,110>>
V_unix == <<117,110,105,120>>
V_dos == <<100,111,115>>

(* ---------------------------- rendering --------------------------- *)
(* canonical header: options sorted by key, ", " separated, LF terminated;
   opts is a sequence of [k, v] with distinct keys (byte sequences) *)
RenderOpts(opts) ==
  LET srt == SortSeq(opts, LAMBDA x, y : Less(x.k, y.k)) IN
  FlattenSeq([i \in 1..Len(srt) |->
     (IF i > 1 THEN <<44, 32>> ELSE <<>>) \o srt[i].k \o <<61>> \o srt[i].v])
RenderHeader(id, opts) ==
  <<35>> \o IdBytes(id) \o <<58>>
  \o (IF opts = <<>> THEN <<>> ELSE <<32>> \o RenderOpts(opts)) \o <<10>>

(* ------------------------------ DFA ------------------------------- *)
(* states: "hash" "dots" "name" "colon" "sp" "key" "val" "comma" "dead"  *)
(* d = [q, nd (dots seen), nm (name bytes so far), vl (value length)]    *)
NamePrefixes == {SubSeq(Names[i], 1, n) : i \in 1..6, n \in 0..8} \ {<<>>}
IsNamePrefix(s) == \E i \in 1..6 : Len(s) <= Len(Names[i]) /\ SubSeq(Names[i], 1, Len(s)) = s
IsName(s) == \E i \in 1..6 : Names[i] = s
D0 == [q |-> "hash", nd |-> 0, nm |-> <<>>, vl |-> 0]
Dead == [q |-> "dead", nd |-> 0, nm |-> <<>>, vl |-> 0]
DStep(d, b) ==
  CASE d.q = "hash" -> IF b = 35 THEN [d EXCEPT !.q = "dots"] ELSE Dead
    [] d.q = "dots" ->
         IF b = 46 THEN (IF d.nd < 3 THEN [d EXCEPT !.nd = @ + 1] ELSE Dead)
         ELSE IF IsNamePrefix(<<b>>) THEN [d EXCEPT !.q = "name", !.nm = <<b>>] ELSE Dead
    [] d.q = "name" ->
         IF b = 58 THEN (IF IsName(d.nm) THEN [d EXCEPT !.q = "colon"] ELSE Dead)
         ELSE IF IsNamePrefix(Append(d.nm, b)) THEN [d EXCEPT !.nm = Append(@, b)] ELSE Dead
    [] d.q = "colon" -> IF b = 32 THEN [d EXCEPT !.q = "sp"] ELSE Dead
    [] d.q = "sp" -> IF KeyStart(b) THEN [d EXCEPT !.q = "key"] ELSE Dead
    [] d.q = "key" -> IF b = 61 THEN [d EXCEPT !.q = "val", !.vl = 0]
                      ELSE IF KeyChar(b) THEN d ELSE Dead
    [] d.q = "val" -> IF ValChar(b) THEN [d EXCEPT !.vl = 1]
                      ELSE IF b = 44 /\ d.vl = 1 THEN [d EXCEPT !.q = "comma"] ELSE Dead
    [] d.q = "comma" -> IF b = 32 THEN [d EXCEPT !.q = "sp"] ELSE Dead
    [] OTHER -> Dead
DAccepting(d) == d.q = "colon" \/ (d.q = "val" /\ d.vl = 1)
RECURSIVE DRun(_,_,_)
DRun(d, h, p) == IF p > Len(h) THEN d ELSE DRun(DStep(d, h[p]), h, p + 1)
DfaAccepts(h) == DAccepting(DRun(D0, h, 1))
=======================================================================

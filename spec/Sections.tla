--------------------------- MODULE Sections ---------------------------
(* The section hierarchy of DiffX 1.0 (docs/spec/sections.rst and the    *)
(* state tree in section-format.rst; normative choice N1 in DESIGN.md).  *)
EXTENDS Integers, Sequences

LegalIds == {"diffx", ".preamble", ".meta", ".change", "..preamble", "..meta",
             "..file", "...meta", "...diff"}
ContainerIds == {"diffx", ".change", "..file"}
PreambleIds == {".preamble", "..preamble"}
MetaIds == {".meta", "..meta", "...meta"}
DiffIds == {"...diff"}
ContentIds == PreambleIds \cup MetaIds \cup DiffIds

(* "START" is the state before anything was read / written *)
FollowOf(id) ==
  CASE id = "START" -> {"diffx"}
    [] id = "diffx" -> {".preamble", ".meta", ".change"}
    [] id = ".preamble" -> {".meta", ".change"}
    [] id = ".meta" -> {".change"}
    [] id = ".change" -> {"..preamble", "..meta", "..file"}
    [] id = "..preamble" -> {"..meta", "..file"}
    [] id = "..meta" -> {".change", "..file"}
    [] id = "..file" -> {"...meta"}
    [] id = "...meta" -> {".change", "...diff", "..file"}
    [] id = "...diff" -> {".change", "..file"}

SecId(level, name) ==
  CASE level = 0 -> name [] level = 1 -> "." \o name
    [] level = 2 -> ".." \o name [] OTHER -> "..." \o name

(* level of the dots of an id *)
LevelOf(id) ==
  CASE id = "diffx" -> 0
    [] id \in {".preamble", ".meta", ".change"} -> 1
    [] id \in {"..preamble", "..meta", "..file"} -> 2
    [] OTHER -> 3
NameOf(id) ==
  CASE id = "diffx" -> "diffx"
    [] id \in PreambleIds -> "preamble"
    [] id \in MetaIds -> "meta"
    [] id = ".change" -> "change"
    [] id = "..file" -> "file"
    [] OTHER -> "diff"

(* level (0 main, 1 change, 2 file) of the container that is open after id *)
OpenLevel(id) ==
  CASE id \in {"diffx", ".preamble", ".meta"} -> 0
    [] id \in {".change", "..preamble", "..meta"} -> 1
    [] OTHER -> 2
ContainerLevel(id) == CASE id = "diffx" -> 0 [] id = ".change" -> 1 [] id = "..file" -> 2

(* a sequence of ids is a legal section order iff it is a path of FollowOf *)
RECURSIVE PathOK(_,_,_)
PathOK(ids, prev, i) ==
  IF i > Len(ids) THEN TRUE
  ELSE ids[i] \in FollowOf(prev) /\ PathOK(ids, ids[i], i + 1)
LegalOrder(ids) == PathOK(ids, "START", 1)
(* index of the first id that may not follow its predecessor, 0 if none *)
RECURSIVE FirstBad(_,_,_)
FirstBad(ids, prev, i) ==
  IF i > Len(ids) THEN 0
  ELSE IF ids[i] \notin FollowOf(prev) THEN i ELSE FirstBad(ids, ids[i], i + 1)
=======================================================================

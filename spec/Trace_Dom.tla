--------------------------- MODULE Trace_Dom ---------------------------
(* Direction B for C05, C06, C18, C19: histories over SEVERAL live trees    *)
(* of the object model, one TLC state per event; after every event the     *)
(* snapshot of ALL live trees (public attributes only) must equal the       *)
(* specification's state - so an operation on one tree that disturbs        *)
(* another, or an observer that mutates, is caught at that step.            *)
(* trace: [id, cmap, chk, ev]; chk selects clauses:                          *)
(*   chk.bytes  serialised bytes must equal Serialize (canonical, C05)       *)
(*   chk.adopt  a loaded tree is adopted from the observation (the reader is  *)
(*              judged elsewhere); relations between cycles are judged       *)
(*   chk.c06    re-serialising must succeed (C06)                             *)
(* events (tid = index into the list of live trees, in creation order):     *)
(*   new  [attrs, ok]              addc [tid, attrs, ok]                      *)
(*   addf [tid, ci, attrs, ok]     set  [tid, ci, fi, name, val, ok]          *)
(*   mut  [tid, ci, fi, key, val]  (in-place metadata[key] = val)            *)
(*   opt  [tid, ci, fi, sec, o, del]  (direct options[...] mutation)         *)
(*   ser  [tid, status, bytes]     parse [bytes, status]                      *)
(*   cmp  [a, b, eq, ne, samebytes]   repr [tid]                              *)
(*   stats [tid] (generate_stats)     mut2 [tid, ci, fi, key, key2, val]      *)
(*   all carry snaps = the trees after the event                             *)
EXTENDS Integers, Sequences, TLC, Json, IOUtils, Dom, Stats
VARIABLES i, j, trees
Traces == ndJsonDeserialize(IOEnv.TRACE_FILE)
TraceTables == JsonDeserialize(IOEnv.TABLES_FILE)

(* the container addressed by (ci, fi): ci = 0 main; fi = 0 the change *)
GetC(t, ci, fi) == IF ci = 0 THEN t ELSE IF fi = 0 THEN t.changes[ci] ELSE t.changes[ci].files[fi]
PutC(t, ci, fi, c) == IF ci = 0 THEN c ELSE IF fi = 0 THEN [t EXCEPT !.changes[ci] = c]
                      ELSE [t EXCEPT !.changes[ci].files[fi] = c]
LevelAt(ci, fi) == IF ci = 0 THEN 0 ELSE IF fi = 0 THEN 1 ELSE 2
Res(ok, why, ts) == [ok |-> ok, why |-> why, trees |-> ts]
SetTree(ts, tid, t) == [n \in 1..Len(ts) |-> IF n = tid THEN t ELSE ts[n]]
JSetKey(o, k, v) ==
  LET others == SelectSeq(o.items, LAMBDA x : x.k # k) IN
  SortKeys([o EXCEPT !.items = Append(others, [k |-> k, v |-> v])])

(* section contents of a tree, options left aside (C06 "carries the same section contents") *)
CC(cs) == [kind |-> cs.kind, text |-> cs.text, raw |-> cs.raw, meta |-> cs.meta]
ContentsOf(t) ==
  [pre |-> CC(t.pre), meta |-> CC(t.meta),
   changes |-> [n \in 1..Len(t.changes) |->
      [pre |-> CC(t.changes[n].pre), meta |-> CC(t.changes[n].meta),
       files |-> [m \in 1..Len(t.changes[n].files) |-> [meta |-> CC(t.changes[n].files[m].meta), diff |-> CC(t.changes[n].files[m].diff)]]]]]

(* ---- generate_stats on a tree of the object model (Stats.tla) ---- *)
DiffDesc(cmap, cs) ==
  [has |-> cs.kind = "bytes", raw |-> cs.raw,
   type |-> IF OHas(cs.opts, K_type) THEN (IF OGet(cs.opts, K_type).s = V_binary THEN "binary" ELSE "text") ELSE "none",
   le |-> IF LeArg(cs.opts) = "bad" THEN "none" ELSE LeArg(cs.opts),
   codec |-> IF EncArg(cmap, cs.opts).given THEN EncArg(cmap, cs.opts).codec ELSE NoCodec]
StatsTree(cmap, t) ==
  [meta |-> t.meta.meta,
   changes |-> [n \in 1..Len(t.changes) |->
      [meta |-> t.changes[n].meta.meta,
       files |-> [m \in 1..Len(t.changes[n].files) |->
          [meta |-> t.changes[n].files[m].meta.meta, d |-> DiffDesc(cmap, t.changes[n].files[m].diff)]]]]]
WithStats(t, g) ==
  [t EXCEPT !.meta.meta = SortKeys(g.meta),
            !.changes = [n \in 1..Len(t.changes) |->
               [t.changes[n] EXCEPT !.meta.meta = SortKeys(g.changes[n].meta),
                                    !.files = [m \in 1..Len(t.changes[n].files) |->
                                       [t.changes[n].files[m] EXCEPT !.meta.meta = SortKeys(g.changes[n].files[m].meta)]]]]]

(* first tree whose snapshot differs from the specification state; 0 if none *)
SnapDiff(ts, snaps) ==
  IF Len(ts) # Len(snaps) THEN -1
  ELSE LET bad == {n \in 1..Len(ts) : ts[n] # snaps[n]} IN
       IF bad = {} THEN 0 ELSE CHOOSE n \in bad : \A m \in bad : n <= m

Step(tr, e) ==
  CASE e.k = "new" ->
         LET r == ApplyAttrs(NewTree, 0, e.attrs, 1) IN
         IF r.unspec THEN Res(TRUE, "UNSPEC", trees)
         ELSE IF r.ok # e.ok THEN Res(FALSE, IF r.ok THEN "constructor-rejected-valid-attributes" ELSE "constructor-accepted-invalid-attribute", trees)
         ELSE Res(TRUE, "", IF r.ok THEN Append(trees, r.c) ELSE trees)
    [] e.k = "addc" ->
         LET r == ApplyAttrs(NewChange, 1, e.attrs, 1) IN
         IF r.unspec THEN Res(TRUE, "UNSPEC", trees)
         ELSE IF r.ok # e.ok THEN Res(FALSE, IF r.ok THEN "add_change-rejected-valid-attributes" ELSE "add_change-accepted-invalid-attribute", trees)
         ELSE Res(TRUE, "", IF r.ok THEN SetTree(trees, e.tid, [trees[e.tid] EXCEPT !.changes = Append(@, r.c)]) ELSE trees)
    [] e.k = "addf" ->
         LET r == ApplyAttrs(NewFile, 2, e.attrs, 1) IN
         IF r.unspec THEN Res(TRUE, "UNSPEC", trees)
         ELSE IF r.ok # e.ok THEN Res(FALSE, IF r.ok THEN "add_file-rejected-valid-attributes" ELSE "add_file-accepted-invalid-attribute", trees)
         ELSE Res(TRUE, "", IF r.ok THEN SetTree(trees, e.tid, [trees[e.tid] EXCEPT !.changes[e.ci].files = Append(@, r.c)]) ELSE trees)
    [] e.k = "set" ->
         LET t == trees[e.tid]
             r == SetAttr(GetC(t, e.ci, e.fi), LevelAt(e.ci, e.fi), e.name, e.val) IN
         IF r.unspec THEN Res(TRUE, "UNSPEC", trees)
         ELSE IF r.ok # e.ok THEN Res(FALSE, IF r.ok THEN "valid-value-rejected:" \o e.name ELSE "invalid-value-stored:" \o e.name, trees)
         ELSE Res(TRUE, "", IF r.ok THEN SetTree(trees, e.tid, PutC(t, e.ci, e.fi, r.c)) ELSE trees)
    [] e.k = "mut" ->
         LET t == trees[e.tid]  c == GetC(t, e.ci, e.fi)
             c2 == [c EXCEPT !.meta.meta = JSetKey(@, e.key, e.val)] IN
         Res(TRUE, "", SetTree(trees, e.tid, PutC(t, e.ci, e.fi, c2)))
    [] e.k = "mut2" ->       \* in-place change inside a nested metadata dictionary: meta[key][key2] = val
         LET t == trees[e.tid]  c == GetC(t, e.ci, e.fi)
             inner == GetKey(c.meta.meta, e.key)
             c2 == [c EXCEPT !.meta.meta = JSetKey(@, e.key, JSetKey(inner, e.key2, e.val))] IN
         Res(TRUE, "", SetTree(trees, e.tid, PutC(t, e.ci, e.fi, c2)))
    [] e.k = "stats" ->
         LET t == trees[e.tid]  st == StatsTree(tr.cmap, t) IN
         IF AnyUnspec(st) THEN Res(TRUE, "UNSPEC", trees)
         ELSE IF ~e.ok THEN Res(FALSE, "generate_stats-raised", trees)
         ELSE Res(TRUE, "", SetTree(trees, e.tid, WithStats(t, GenAll(st))))
    [] e.k = "opt" ->
         LET t == trees[e.tid]  c == GetC(t, e.ci, e.fi)
             upd(os) == IF e.del THEN ODel(os, e.o.k) ELSE OSet(os, e.o)
             c2 == CASE e.sec = "self" -> [c EXCEPT !.opts = upd(@)]
                     [] e.sec = "pre" -> [c EXCEPT !.pre.opts = upd(@)]
                     [] e.sec = "meta" -> [c EXCEPT !.meta.opts = upd(@)]
                     [] e.sec = "diff" -> [c EXCEPT !.diff.opts = upd(@)] IN
         Res(TRUE, "", SetTree(trees, e.tid, PutC(t, e.ci, e.fi, c2)))
    [] e.k = "ser" /\ tr.chk.c06 ->
         (* C06: re-serialising a loaded tree must succeed and reproduce the given bytes *)
         LET s == DomSerialize(tr.cmap, trees[e.tid]) IN
         IF s.status = "unspec" THEN Res(TRUE, "UNSPEC", trees)
         ELSE IF e.status # "ok" THEN
              (IF s.status = "unknownkw" THEN Res(TRUE, "DEV:D_DomOptionsNotWritable", trees)
               ELSE Res(FALSE, "reserialisation-failed:" \o e.status, trees))
         ELSE IF e.check_same /\ e.bytes # e.same_as THEN Res(FALSE, "reserialised-bytes-differ", trees)
         ELSE Res(TRUE, "", trees)
    [] e.k = "ser" ->
         LET s == DomSerialize(tr.cmap, trees[e.tid]) IN
         IF s.status = "unspec" THEN Res(TRUE, "UNSPEC", trees)
         ELSE IF s.status = "unknownkw" THEN Res(TRUE, "", trees)     \* whether this succeeds is C06's business
         ELSE IF s.status = "raises" THEN
              (IF e.status = "ok" THEN Res(FALSE, "serialised-a-tree-the-writer-must-reject", trees) ELSE Res(TRUE, "", trees))
         ELSE IF e.status # "ok" THEN Res(FALSE, "serialisation-failed:" \o e.status, trees)
         ELSE IF tr.chk.bytes /\ e.bytes # s.bytes THEN Res(FALSE, "serialised-bytes-not-canonical", trees)
         ELSE IF e.check_same /\ e.bytes # e.same_as THEN Res(FALSE, "reserialised-bytes-differ", trees)
         ELSE Res(TRUE, "", trees)
    [] e.k = "parse" /\ tr.chk.adopt ->
         (* C06: metamorphic - the loaded tree is taken from the observation *)
         IF e.status # "ok" THEN
              (* a failed load is a failure unless the file is outside the specified zone (e.g. a container
                 declaring a name that is no codec: the writer carries it, the reader refuses it) *)
              (IF DomParse(tr.cmap, e.bytes).status = "unspec" THEN Res(TRUE, "UNSPEC", trees)
               ELSE Res(FALSE, "load-failed:" \o e.status, trees))
         ELSE IF e.check_same /\ ContentsOf(e.snaps[Len(e.snaps)]) # ContentsOf(trees[e.a]) THEN
              Res(FALSE, "reloaded-contents-differ", Append(trees, e.snaps[Len(e.snaps)]))
         ELSE Res(TRUE, "", Append(trees, e.snaps[Len(e.snaps)]))
    [] e.k = "parse" ->
         LET p == DomParse(tr.cmap, e.bytes) IN
         IF p.status = "unspec" THEN Res(TRUE, "UNSPEC", trees)
         ELSE IF (p.status = "ok") # (e.status = "ok") THEN
              Res(FALSE, IF p.status = "ok" THEN "load-failed:" \o e.status ELSE "loaded-a-file-that-must-be-rejected", trees)
         ELSE Res(TRUE, "", IF p.status = "ok" THEN Append(trees, p.t) ELSE trees)
    [] e.k = "cmp" ->
         LET eq == trees[e.a] = trees[e.b] IN
         IF e.eq # eq \/ e.ne # ~eq THEN Res(FALSE, IF eq THEN "equal-trees-compare-unequal" ELSE "different-trees-compare-equal", trees)
         ELSE IF eq /\ e.samebytes = "no" THEN Res(FALSE, "equal-trees-serialise-differently", trees)
         ELSE Res(TRUE, "", trees)
    [] e.k = "repr" -> Res(TRUE, "", trees)

Check(tr, e) ==
  LET r == Step(tr, e) IN
  IF ~r.ok \/ r.why = "UNSPEC" THEN r
  ELSE LET d == SnapDiff(r.trees, e.snaps) IN
    IF d = 0 THEN r
    ELSE IF d = -1 THEN Res(FALSE, "number-of-live-trees", r.trees)
    ELSE Res(FALSE, (IF e.k \in {"ser", "cmp", "repr"} THEN "observer-" \o e.k \o "-mutated-tree-"
                     ELSE IF e.k = "parse" THEN (IF d = Len(r.trees) THEN "parsed-tree-differs-from-specification(tree-" ELSE "parse-disturbed-tree-")
                     ELSE IF d = e.tid THEN "tree-after-" \o e.k \o "-differs(tree-" ELSE e.k \o "-disturbed-other-tree-") \o ToString(d), r.trees)

Init == i = 1 /\ j = 1 /\ trees = <<>>
Next ==
  /\ i <= Len(Traces)
  /\ LET tr == Traces[i] IN
     IF j > Len(tr.ev) THEN
       /\ PrintT(<<"V", tr.id, "ok", 0, "">>) /\ i' = i + 1 /\ j' = 1 /\ trees' = <<>>
     ELSE LET r == Check(tr, tr.ev[j]) IN
       IF r.ok /\ r.why = "UNSPEC" THEN
         /\ PrintT(<<"V", tr.id, "SKIP", j, "unspecified-zone">>) /\ i' = i + 1 /\ j' = 1 /\ trees' = <<>>
       ELSE IF r.ok /\ r.why # "" THEN      \* explained only by a named deviation: stop this trace there
         /\ PrintT(<<"V", tr.id, "DEV", j, r.why>>) /\ i' = i + 1 /\ j' = 1 /\ trees' = <<>>
       ELSE IF r.ok THEN i' = i /\ j' = j + 1 /\ trees' = r.trees
       ELSE /\ PrintT(<<"V", tr.id, "FAIL", j, r.why>>) /\ i' = i + 1 /\ j' = 1 /\ trees' = <<>>
Spec == Init /\ [][Next]_<<i, j, trees>>
=======================================================================

"""Object model (DOM) helpers: building trees through the public API, snapshots
of all public state, descriptors for the Stats / Dom specifications."""
from harness.abstraction import NOCODEC, bl, cps, jabs


def typed_opt(k, v):
    if v is None:
        t, s = 'none', ''
    elif isinstance(v, bool):
        t, s = 'bool', str(v)
    elif isinstance(v, int):
        t, s = 'int', str(v)
    elif isinstance(v, str):
        t, s = 'str', v
    else:
        t, s = 'other', type(v).__name__
    return {'k': bl(k.encode('utf-8', 'surrogatepass')) if isinstance(k, str) else bl(repr(k).encode()),
            's': bl(s.encode('utf-8', 'surrogatepass')), 't': t}


def snap_opts(options):
    keys = sorted(options, key=lambda x: (x.encode('utf-8', 'surrogatepass') if isinstance(x, str) else repr(x).encode()))
    return [typed_opt(k, options[k]) for k in keys]


def snap_content(sec):
    c = sec.content
    d = {'opts': snap_opts(sec.options), 'kind': 'none', 'text': [], 'raw': [], 'meta': jabs(None)}
    if c is None:
        pass
    elif isinstance(c, str):
        d['kind'] = 'text'
        d['text'] = cps(c)
    elif isinstance(c, bytes):
        d['kind'] = 'bytes'
        d['raw'] = bl(c)
    elif isinstance(c, dict):
        d['kind'] = 'meta'
        d['meta'] = jabs(c)
    else:
        d['kind'] = 'other:' + type(c).__name__
    return d


def snap(diffx):
    """Pure function of PUBLIC attributes of a tree."""
    return {
        'opts': snap_opts(diffx.options),
        'preamble': snap_content(diffx.preamble_section),
        'meta': snap_content(diffx.meta_section),
        'changes': [{
            'opts': snap_opts(ch.options),
            'preamble': snap_content(ch.preamble_section),
            'meta': snap_content(ch.meta_section),
            'files': [{
                'opts': snap_opts(f.options),
                'meta': snap_content(f.meta_section),
                'diff': snap_content(f.diff_section),
            } for f in ch.files],
        } for ch in diffx.changes],
    }


def diff_desc(f, cat):
    enc = f.diff_encoding
    t = f.diff_type
    le = f.diff_line_endings
    return {'has': f.diff is not None, 'raw': bl(f.diff or b''),
            'type': t if t in ('text', 'binary') else 'none',
            'le': le if le in ('unix', 'dos') else 'none',
            'codec': cat.desc(enc) if enc else NOCODEC}


def stats_tree(diffx, cat):
    return {'meta': jabs(diffx.meta),
            'changes': [{'meta': jabs(ch.meta),
                         'files': [{'meta': jabs(f.meta), 'd': diff_desc(f, cat)} for f in ch.files]}
                        for ch in diffx.changes]}


def metas(diffx):
    out = [jabs(diffx.meta)]
    for ch in diffx.changes:
        out.append(jabs(ch.meta))
        for f in ch.files:
            out.append(jabs(f.meta))
    return out

"""Object model (DOM) helpers: building trees through the public API, snapshots
of all public state, descriptors for the Stats / Dom specifications."""
from harness.abstraction import NOCODEC, bl, cps, jabs


def typed_opt(k, v):
    if v is None:
        t, s = 'none', ''
    elif isinstance(v, bool):
        t, s = 'bool', str(v)
    elif isinstance(v, int):
        t, s = 'int', str(v)
    elif isinstance(v, str):
        t, s = 'str', v
    else:
        t, s = 'other', type(v).__name__
    return {'k': bl(k.encode('utf-8', 'surrogatepass')) if isinstance(k, str) else bl(repr(k).encode()),
            's': bl(s.encode('utf-8', 'surrogatepass')), 't': t}


def snap_opts(options):
    keys = sorted(options, key=lambda x: (x.encode('utf-8', 'surrogatepass') if isinstance(x, str) else repr(x).encode()))
    return [typed_opt(k, options[k]) for k in keys]


def snap_content(sec):
    c = sec.content
    d = {'opts': snap_opts(sec.options), 'kind': 'none', 'text': [], 'raw': [], 'meta': jabs(None)}
    if c is None:
        pass
    elif isinstance(c, str):
        d['kind'] = 'text'
        d['text'] = cps(c)
    elif isinstance(c, bytes):
        d['kind'] = 'bytes'
        d['raw'] = bl(c)
    elif isinstance(c, dict):
        d['kind'] = 'meta'
        d['meta'] = jabs(c)
    else:
        d['kind'] = 'other:' + type(c).__name__
    return d


def snap(diffx):
    """Pure function of PUBLIC attributes of a tree."""
    return {
        'opts': snap_opts(diffx.options),
        'pre': snap_content(diffx.preamble_section),
        'meta': snap_content(diffx.meta_section),
        'changes': [{
            'opts': snap_opts(ch.options),
            'pre': snap_content(ch.preamble_section),
            'meta': snap_content(ch.meta_section),
            'files': [{
                'opts': snap_opts(f.options),
                'meta': snap_content(f.meta_section),
                'diff': snap_content(f.diff_section),
            } for f in ch.files],
        } for ch in diffx.changes],
    }


def safe_snap(diffx):
    """snap(), but a tree whose public attributes can no longer be read (possible only with a changed library)
    gives a well-formed snapshot that no specification state matches - TLC then reports it - instead of a
    harness exception."""
    try:
        return snap(diffx)
    except Exception as e:      # noqa
        none = {'opts': [], 'kind': 'other:unreadable', 'text': [], 'raw': [], 'meta': jabs(None)}
        return {'opts': [typed_opt('<tree-not-readable>', type(e).__name__)], 'pre': none, 'meta': none, 'changes': []}


def diff_desc(f, cat):
    enc = f.diff_encoding
    t = f.diff_type
    le = f.diff_line_endings
    return {'has': f.diff is not None, 'raw': bl(f.diff or b''),
            'type': t if t in ('text', 'binary') else 'none',
            'le': le if le in ('unix', 'dos') else 'none',
            'codec': cat.desc(enc) if enc else NOCODEC}


def stats_tree(diffx, cat):
    return {'meta': jabs(diffx.meta),
            'changes': [{'meta': jabs(ch.meta),
                         'files': [{'meta': jabs(f.meta), 'd': diff_desc(f, cat)} for f in ch.files]}
                        for ch in diffx.changes]}


def metas(diffx):
    out = [jabs(diffx.meta)]
    for ch in diffx.changes:
        out.append(jabs(ch.meta))
        for f in ch.files:
            out.append(jabs(f.meta))
    return out


# ---------------------------------------------------------------- histories
def absval(v, cat=None):
    """Abstract an attribute value offered to a typed attribute."""
    z = {'t': 'other', 's': [], 'b': [], 'n': 0, 'j': jabs(None)}
    if v is None:
        z['t'] = 'none'
    elif isinstance(v, bool):
        z['t'] = 'bool'
        z['b'] = bl(str(v).encode())
    elif isinstance(v, int):
        z['t'] = 'int'
        z['b'] = bl(str(v).encode())
    elif isinstance(v, str):
        z['t'] = 'str'
        z['s'] = cps(v)
        z['b'] = bl(v.encode('utf-8', 'surrogatepass'))
        if cat is not None:
            cat.note(v)
    elif isinstance(v, bytes):
        z['t'] = 'bytes'
        z['s'] = bl(v)
    elif isinstance(v, dict):
        z['t'] = 'dict'
        z['j'] = jabs(v)
        if cat is not None:
            cat.note_json(v)
    elif isinstance(v, (list, tuple)):
        z['t'] = 'list'
    elif isinstance(v, float):
        z['t'] = 'float'
    return z


def absattrs(attrs, cat):
    return [{'name': k, 'val': absval(v, cat)} for k, v in attrs.items()]


class History(object):
    """Executes operations on live trees and records Trace_Dom events."""

    def __init__(self, cat, shared_reader=False, shared_writer=False):
        from pydiffx.dom import DiffX
        from pydiffx.dom.reader import DiffXDOMReader
        from pydiffx.dom.writer import DiffXDOMWriter
        self.DiffX = DiffX
        self.cat = cat
        self.trees = []
        self.ev = []
        self.reader = DiffXDOMReader(DiffX) if shared_reader else None
        self.writer = DiffXDOMWriter() if shared_writer else None
        self.blobs = []

    def _snaps(self):
        return [safe_snap(t) for t in self.trees]

    def _emit(self, e):
        e['snaps'] = self._snaps()
        for k, dflt in (('tid', 0), ('ci', 0), ('fi', 0), ('attrs', []), ('ok', True), ('name', ''),
                        ('val', absval(None)), ('key', []), ('key2', []), ('sec', ''), ('o', {'k': [], 's': [], 't': 'none'}),
                        ('del', False), ('status', ''), ('bytes', []), ('a', 0), ('b', 0), ('eq', False),
                        ('ne', False), ('samebytes', 'na'), ('same_as', []), ('check_same', False)):
            e.setdefault(k, dflt)
        self.ev.append(e)
        return e

    def container(self, tid, ci, fi):
        t = self.trees[tid - 1]
        if ci == 0:
            return t
        ch = t.changes[ci - 1]
        return ch if fi == 0 else ch.files[fi - 1]

    def new(self, **attrs):
        ok = True
        try:
            t = self.DiffX(**attrs)
        except Exception:      # noqa
            ok = False
        if ok:
            self.trees.append(t)
        return self._emit({'k': 'new', 'attrs': absattrs(attrs, self.cat), 'ok': ok})

    def addc(self, tid, **attrs):
        ok = True
        try:
            self.trees[tid - 1].add_change(**attrs)
        except Exception:      # noqa
            ok = False
        return self._emit({'k': 'addc', 'tid': tid, 'attrs': absattrs(attrs, self.cat), 'ok': ok})

    def addf(self, tid, ci, **attrs):
        ok = True
        try:
            self.trees[tid - 1].changes[ci - 1].add_file(**attrs)
        except Exception:      # noqa
            ok = False
        return self._emit({'k': 'addf', 'tid': tid, 'ci': ci, 'attrs': absattrs(attrs, self.cat), 'ok': ok})

    def set(self, tid, ci, fi, name, value):
        ok = True
        try:
            setattr(self.container(tid, ci, fi), name, value)
        except Exception:      # noqa
            ok = False
        return self._emit({'k': 'set', 'tid': tid, 'ci': ci, 'fi': fi, 'name': name, 'val': absval(value, self.cat), 'ok': ok})

    def mut(self, tid, ci, fi, key, value):
        self.container(tid, ci, fi).meta[key] = value
        self.cat.note(key)
        self.cat.note_json(value)
        return self._emit({'k': 'mut', 'tid': tid, 'ci': ci, 'fi': fi, 'key': cps(key), 'val': jabs(value)})

    def mut2(self, tid, ci, fi, key, key2, value):
        m = self.container(tid, ci, fi).meta
        if not isinstance(m.get(key), dict):
            return None
        m[key][key2] = value
        self.cat.note(key2)
        self.cat.note_json(value)
        return self._emit({'k': 'mut2', 'tid': tid, 'ci': ci, 'fi': fi, 'key': cps(key), 'key2': cps(key2), 'val': jabs(value)})

    def stats(self, tid):
        import logging
        logging.disable(logging.CRITICAL)
        ok = True
        try:
            self.trees[tid - 1].generate_stats()
        except Exception:       # noqa  judged by the specification (a failure is only explained by an unspecified zone)
            ok = False
        finally:
            logging.disable(logging.NOTSET)
        return self._emit({'k': 'stats', 'tid': tid, 'ok': ok})

    def opt(self, tid, ci, fi, sec, key, value=None, delete=False):
        c = self.container(tid, ci, fi)
        s = {'self': c, 'pre': getattr(c, 'preamble_section', None), 'meta': c.meta_section,
             'diff': getattr(c, 'diff_section', None)}[sec]
        if delete:
            s.options.pop(key, None)
        else:
            s.options[key] = value
            if isinstance(value, str):
                self.cat.note(value)
        return self._emit({'k': 'opt', 'tid': tid, 'ci': ci, 'fi': fi, 'sec': sec, 'o': typed_opt(key, value), 'del': delete})

    def _to_bytes(self, t):
        import io
        if self.writer is not None:
            with io.BytesIO() as s:
                self.writer.write_stream(t, s)
                return s.getvalue()
        return t.to_bytes()

    def ser(self, tid, same_as=None):
        from harness.abstraction import exc_family
        status = 'ok'
        data = b''
        try:
            data = self._to_bytes(self.trees[tid - 1])
        except Exception as e:     # noqa
            status = exc_family(e)
        self.blobs.append(data if status == 'ok' else None)
        e = {'k': 'ser', 'tid': tid, 'status': status, 'bytes': bl(data)}
        if same_as is not None:
            e['same_as'] = bl(same_as)
            e['check_same'] = True
        return self._emit(e)

    def parse(self, data, same_contents_as=None):
        import io
        from harness.abstraction import exc_family
        status = 'ok'
        try:
            if self.reader is not None:
                t = self.reader.parse(io.BytesIO(data))
            else:
                t = self.DiffX.from_bytes(data)
        except Exception as e:     # noqa
            status = exc_family(e)
        if status == 'ok':
            self.trees.append(t)
        e = {'k': 'parse', 'bytes': bl(data), 'status': status}
        if same_contents_as is not None:
            e['a'] = same_contents_as
            e['check_same'] = True
        return self._emit(e)

    def cmp(self, a, b):
        ta, tb = self.trees[a - 1], self.trees[b - 1]
        eq = bool(ta == tb)
        ne = bool(ta != tb)
        same = 'na'
        try:
            same = 'yes' if ta.to_bytes() == tb.to_bytes() else 'no'
        except Exception:      # noqa
            same = 'na'
        return self._emit({'k': 'cmp', 'a': a, 'b': b, 'eq': eq, 'ne': ne, 'samebytes': same})

    def repr(self, tid):
        t = self.trees[tid - 1]
        repr(t)
        str(t.changes)
        # reading every typed attribute (set or not) of every container is an observation too
        names0 = ['encoding', 'version', 'meta', 'meta_encoding', 'meta_format', 'preamble', 'preamble_encoding', 'preamble_indent',
                  'preamble_line_endings', 'preamble_mimetype']
        names2 = ['encoding', 'meta', 'meta_encoding', 'meta_format', 'diff', 'diff_encoding', 'diff_line_endings', 'diff_type']
        for c, names in [(t, names0)] + [(ch, names0[:1] + names0[2:]) for ch in t.changes] + \
                [(f, names2) for ch in t.changes for f in ch.files]:
            for nm in names:
                try:
                    getattr(c, nm)
                except Exception:       # noqa  (a failing read is not this event's subject)
                    pass
        return self._emit({'k': 'repr', 'tid': tid})

    def trace(self, tid, chk):
        from harness.wdriver import cmap_for
        blob = b''.join(bytes(e['bytes']) for e in self.ev if e['bytes'])
        names = set()
        for e in self.ev:
            for s in e['snaps']:
                _collect_encs(s, names)
        cmap = cmap_for(blob + b''.join(b' encoding=' + n for n in names), self.cat)
        return {'id': tid, 'cmap': cmap, 'chk': chk, 'ev': self.ev}


def _collect_encs(s, names):
    def opts(os):
        for o in os:
            if bytes(o['k']) == b'encoding' and o['t'] == 'str':
                names.add(bytes(o['s']))
    opts(s['opts'])
    for k in ('pre', 'meta'):
        opts(s[k]['opts'])
    for ch in s['changes']:
        opts(ch['opts'])
        opts(ch['pre']['opts'])
        opts(ch['meta']['opts'])
        for f in ch['files']:
            opts(f['opts'])
            opts(f['meta']['opts'])
            opts(f['diff']['opts'])

"""Spec-derived generator of DiffX files "from another producer" (C03, C04, C06,
C07, C08, C10, C12, C17).

It only produces INPUT bytes (structure from TLC's Gen_Sections, payloads from
the pools, styles and single defects from catalogues).  What the right reading
of those bytes is, is decided by Reader.tla (ReadFile) in TLC, never here.
"""
import json
import re

from harness import pools

NAME = {'diffx': 'diffx', '.preamble': 'preamble', '..preamble': 'preamble', '.meta': 'meta',
        '..meta': 'meta', '...meta': 'meta', '.change': 'change', '..file': 'file', '...diff': 'diff'}
LEVEL_OF_CONTAINER = {'diffx': 0, '.change': 1, '..file': 2}

READ_ENCODINGS = ['utf-8', 'utf-16', 'latin-1', 'utf-32-be', 'utf-16-be', 'utf-32', 'ascii', 'cp1252',
                  'utf-8-sig', 'utf-16-le', 'utf-32-le', 'cp037', 'shift_jis', 'UTF-16', 'utf_8',
                  'Latin1', 'U32', 'iso-8859-15', 'koi8_r']

DEFECTS = ['version_missing', 'version_2', 'version_int', 'version_alias', 'length_missing', 'no_trailing_newline',
           'format_yaml', 'json_truncated', 'json_trailing_comma', 'json_bareword', 'json_extra_data', 'le_mac',
           'main_repeated', 'main_not_first']


def _nobom(s, enc):
    import codecs
    name = codecs.lookup(enc).name
    base = {'utf-16': 'utf-16-le', 'utf-32': 'utf-32-le', 'utf-8-sig': 'utf-8'}.get(name, enc)
    return s.encode(base)


class Style(object):
    def __init__(self, rng, plain=False):
        self.opt_order = 'sorted' if plain else rng.choice(['sorted', 'reversed', 'shuffled', 'shuffled'])
        self.hdr_nl = b'\n' if plain else rng.choice([b'\n', b'\n', b'\r\n'])
        self.blank_p = 0.0 if plain else rng.choice([0.0, 0.3, 0.6])
        self.drop_p = 0.0 if plain else rng.choice([0.0, 0.5, 1.0])
        self.json_style = 'pretty' if plain else rng.choice(['pretty', 'compact', 'unsorted', 'spaced', 'escaped'])
        self.zeros_p = 0.0 if plain else rng.choice([0.0, 0.0, 0.4])        # integers with leading zeros
        self.tail = b'' if plain else rng.choice([b'', b'', b'', b'#.cha', b'garbage without newline', b'#..file: x='])
        self.trailing_blank = 0 if plain else rng.choice([0, 0, 1, 2])
        self.unknown_p = 0.0


def order_opts(opts, style, rng):
    items = list(opts)
    if style.opt_order == 'sorted':
        items.sort()
    elif style.opt_order == 'reversed':
        items.sort(reverse=True)
    else:
        rng.shuffle(items)
    return items


def blank_lines(style, rng):
    out = b''
    if style.blank_p and rng.random() < style.blank_p:
        for _ in range(rng.choice([1, 1, 2])):
            out += rng.choice([b'', b'', b' ', b'\t', b'  ']) + rng.choice([b'\n', b'\r\n'])
    return out


def json_text(v, style, rng):
    if style.json_style == 'pretty':
        return json.dumps(v, indent=4, separators=(',', ': '), sort_keys=True)
    if style.json_style == 'compact':
        return json.dumps(v, separators=(',', ':'), sort_keys=True)
    if style.json_style == 'unsorted':
        if isinstance(v, dict):
            ks = list(v)
            rng.shuffle(ks)
            v = {k: v[k] for k in ks}
        return json.dumps(v, indent=2, ensure_ascii=False)
    if style.json_style == 'spaced':
        return json.dumps(v, indent=1, separators=(' , ', ' : '), ensure_ascii=False)
    # 'escaped': every non-ASCII character escaped with UPPER-case hex, "/" escaped, padded with whitespace
    txt = json.dumps(v, separators=(', ', ':\t'), sort_keys=False)
    txt = re.sub(r'\\u([0-9a-f]{4})', lambda m: '\\u' + m.group(1).upper(), txt).replace('/', '\\/')
    return '\n \t' + txt + '  \r\n'


def build_file(ids, rng, style=None, encs=None, defect=None, defect_at=None, unknown=None,
               main_enc='utf-8', texts=None, metas=None, diffs=None):
    """Render the sections `ids` (in the given order, legal or not) as a file.

    Returns (bytes, info) where info lists, per section, what was put in.
    defect: one entry of DEFECTS applied to section index defect_at (or the
    first applicable one).  unknown: list of (section index, position, key, value)
    options to insert (C12).
    """
    style = style or Style(rng)
    encs = encs or READ_ENCODINGS
    texts = texts or pools.TEXTS
    metas = metas or pools.METAS
    diffs = diffs or pools.DIFFS
    out = b''
    decl = {0: None, 1: None, 2: None}
    info = []
    applied = False
    if defect == 'main_not_first' and ids and ids[0] == 'diffx' and len(ids) > 1:
        ids = [ids[1], ids[0]] + list(ids[2:])
        applied = True
    if defect == 'main_repeated' and ids:
        k = rng.randrange(1, len(ids) + 1)
        ids = list(ids[:k]) + ['diffx'] + list(ids[k:])
        applied = True
    for n, sid in enumerate(ids):
        name = sid.lstrip('.')
        level = len(sid) - len(name)
        opts = []
        content = b''
        own = rng.choice(encs) if rng.random() < 0.4 else None
        here = (defect is not None and not applied and (defect_at is None or defect_at == n))
        if name in ('diffx', 'change', 'file'):
            lvl = {'diffx': 0, 'change': 1, 'file': 2}[name]
            if name == 'diffx':
                own = main_enc
                ver = '1.0'
                if here and defect == 'version_missing':
                    ver = None
                    applied = True
                elif here and defect == 'version_2':
                    ver = '2.0'
                    applied = True
                elif here and defect == 'version_int':
                    ver = '1'
                    applied = True
                elif here and defect == 'version_alias':
                    # numerically 1.0, but not the version string of the specification
                    ver = rng.choice(['1.00', '01.0', '1.0_0', '1.-0', '1.0.0', '1.', '001.000', '1.0e0'])
                    applied = True
                if ver is not None:
                    opts.append(('version', ver))
            if own:
                opts.append(('encoding', own))
            for l in (0, 1, 2):
                if l == lvl:
                    decl[l] = own
                elif l > lvl:
                    decl[l] = None
            info.append({'id': sid, 'enc': own})
        else:
            open_level = max(0, level - 1)
            eff = own
            if name != 'diff' and eff is None:
                for l in range(min(open_level, 2), -1, -1):
                    if decl[l]:
                        eff = decl[l]
                        break
            le_kind = rng.choice(['unix', 'unix', 'dos'])
            declare_le = rng.random() >= style.drop_p * 0.7
            if name == 'preamble':
                text = rng.choice(texts)
                if eff is None:
                    eff = own = 'utf-8'
                try:
                    text.encode(eff)
                except (UnicodeError, LookupError):
                    text = 'plain text'
                nlc = '\r\n' if le_kind == 'dos' else '\n'
                if not declare_le:
                    # first-line detection must find the kind that was used
                    first = text.find('\n')
                    le_kind = 'dos' if first > 0 and text[first - 1] == '\r' else 'unix'
                    nlc = '\r\n' if le_kind == 'dos' else '\n'
                nodefect_nl = not (here and defect == 'no_trailing_newline')
                if nodefect_nl and not text.endswith(nlc):
                    text += nlc
                if not nodefect_nl:
                    while text.endswith(('\n', '\r')):
                        text = text[:-1]
                    text = text or 'x'
                    applied = True
                raw = text.encode(eff)
                nlb = _nobom(nlc, eff)
                indent = rng.choice([0, 0, 4, 4, 2, 1, 7, 12])
                actual = indent if rng.random() < 0.75 else rng.choice([max(0, indent - 1), 0, 1])
                if actual:
                    parts = raw.split(nlb)
                    lines = [p + nlb for p in parts[:-1]] + ([parts[-1]] if parts[-1] else [])
                    mode = rng.choice(['uniform', 'uniform', 'uniform', 'trim_blank', 'first_flush', 'ragged'])
                    def _ind(k, l):
                        # foreign producers: blank lines left without indentation, a flush-left first line, ragged lines
                        if mode == 'trim_blank' and not l.strip(b' \t\r\n\x00'):
                            return 0
                        if mode == 'first_flush' and k == 0:
                            return 0
                        if mode == 'ragged':
                            return rng.randint(0, actual)
                        return actual
                    raw = b''.join(b' ' * _ind(k, l) + l for k, l in enumerate(lines))
                content = raw
                if indent or rng.random() < 0.5:
                    opts.append(('indent', indent))
                if rng.random() >= style.drop_p:
                    opts.append(('mimetype', rng.choice(['text/plain', 'text/markdown'])))
                payload = text
            elif name == 'meta':
                v = rng.choice(metas)
                if eff is None:
                    eff = own = 'utf-8'
                txt = json_text(v, style, rng)
                if rng.random() < 0.2:
                    # a foreign producer's spelling of a number: exponent, upper-case E, trailing zeros, overflow
                    import re as _re
                    from harness.abstraction import EXOTIC_FLOAT_LITERALS
                    ms = list(_re.finditer(r'(?<![\w."\\-])-?\d+\.\d+(?![\w."])', txt))
                    if ms:
                        m = rng.choice(ms)
                        lit = rng.choice(['1e999', '-1e999']) if rng.random() < 0.35 else rng.choice(EXOTIC_FLOAT_LITERALS)
                        txt = txt[:m.start()] + lit + txt[m.end():]
                if here and defect == 'json_truncated':
                    txt = txt[:max(1, len(txt) // 2)]
                    applied = True
                elif here and defect == 'json_trailing_comma':
                    txt = txt.rstrip()[:-1] + ',}'
                    applied = True
                elif here and defect == 'json_bareword':
                    txt = 'nope'
                    applied = True
                elif here and defect == 'json_extra_data':
                    # a complete value followed by more: a stray bracket, a second document, a word
                    txt = txt.rstrip() + rng.choice(['}', ' ]', '\n{}', ' {"b": 2}', ' x', ',', '\n\n1'])
                    applied = True
                try:
                    txt.encode(eff)
                except (UnicodeError, LookupError):
                    txt = json.dumps(v, indent=4, separators=(',', ': '), sort_keys=True)
                    try:
                        txt.encode(eff)
                    except (UnicodeError, LookupError):
                        txt = '{"a": 1}'
                nlc = '\n'
                declare_le = declare_le and rng.random() < 0.2   # rarely declared on metadata
                le_kind = 'unix'
                content = (txt + nlc).encode(eff)
                if here and defect == 'no_trailing_newline':
                    content = txt.encode(eff)
                    applied = True
                fmt = 'json'
                if here and defect == 'format_yaml':
                    fmt = 'yaml'
                    applied = True
                if fmt != 'json' or rng.random() >= style.drop_p:
                    opts.append(('format', fmt))
                payload = v
            else:
                d = rng.choice(diffs)
                enc_for_nl = own
                nlb = _nobom('\r\n' if le_kind == 'dos' else '\n', enc_for_nl or 'ascii')
                if not declare_le:
                    lf = _nobom('\n', enc_for_nl or 'ascii')
                    crlf = _nobom('\r\n', enc_for_nl or 'ascii')
                    k = d.find(lf)
                    le_kind = 'dos' if k != -1 and d[:k + len(lf)].endswith(crlf) else 'unix'
                    nlb = crlf if le_kind == 'dos' else lf
                if here and defect == 'no_trailing_newline':
                    while d.endswith(nlb) or d.endswith(b'\n') or d.endswith(b'\r') or d.endswith(b'\x00'):
                        d = d[:-1]
                    d = d or b'x'
                    applied = True
                elif not d.endswith(nlb):
                    d += nlb
                content = d
                if rng.random() >= style.drop_p:
                    opts.append(('type', rng.choice(['text', 'binary'])))
                payload = d
            if own and (name == 'diff' or own):
                opts.append(('encoding', own))
            if declare_le:
                v = le_kind
                if here and defect == 'le_mac':
                    v = 'mac'
                    applied = True
                opts.append(('line_endings', v))
            elif here and defect == 'le_mac':
                opts.append(('line_endings', 'mac'))
                applied = True
            if not (here and defect == 'length_missing'):
                opts.append(('length', len(content)))
            else:
                applied = True
            info.append({'id': sid, 'enc': own, 'eff': eff})
        out += blank_lines(style, rng)
        items = order_opts(opts, style, rng)
        if unknown:
            for (si, pos, k, v) in unknown:
                if si == n:
                    items.insert(min(pos, len(items)), (k, v))
        if style.zeros_p:
            items = [(k, ('00%s' % v) if (isinstance(v, int) and rng.random() < style.zeros_p) else v) for k, v in items]
        ostr = ', '.join('%s=%s' % kv for kv in items)
        out += b'#' + sid.encode('ascii') + b':' + ((b' ' + ostr.encode('ascii')) if ostr else b'') + style.hdr_nl
        out += content
    for _ in range(style.trailing_blank):
        out += rng.choice([b'\n', b'\r\n', b'  \n'])
    out += style.tail                    # an unterminated last line is not a header line
    return out, {'sections': info, 'defect_applied': applied, 'defect': defect}


def probe_files():
    """Small edge-case files that are read FIRST in a run, so that anything a reader carries over from one
    parse to the next (caches keyed too coarsely, module-level tables) meets its worst first input:
    preambles far shorter than their declared indent, empty-ish content, minimal sections."""
    out = []
    for n in (2, 3, 4, 7, 9, 12, 40):
        content = b'\n' if n <= 3 else b'a\n'
        out.append(b'#diffx: encoding=utf-8, version=1.0\n#.preamble: indent=%d, length=%d\n' % (n, len(content)) + content
                   + b'#.change:\n#..preamble: indent=%d, length=%d, line_endings=unix\n' % (n, len(content)) + content)
    out.append(b'#diffx: encoding=utf-8, version=1.0\n#.meta: format=json, length=3\n{}\n#.change:\n#..file:\n#...meta: length=3\n{}\n')
    return out

"""Drive the real DiffXReader over arbitrary bytes and record what it did."""
import io
import re
import signal

from harness.abstraction import absrec, bl
from harness.wdriver import cmap_for


class _Timeout(Exception):
    pass


def _alarm(signum, frame):
    raise _Timeout()


# the message must AGREE with the attributes (C08); its wording is not prescribed: the first number after the
# word 'line' is the 1-based line, the first number after 'column' (if any) the 1-based column
_LINE_RE = re.compile(r'\bline\D{0,3}(\d+)', re.I)
_COL_RE = re.compile(r'\bcol(?:umn)?\D{0,3}(\d+)', re.I)


def read_bytes(data, reader_factory=None, limit_s=10, abstract=True):
    """(recs, end, line, col, msgok) of iterating the real reader over data."""
    from pydiffx import DiffXReader
    from pydiffx.errors import DiffXParseError
    recs = []
    end = 'done'
    line = -1
    col = -1
    msgok = True
    old = signal.signal(signal.SIGALRM, _alarm)
    signal.setitimer(signal.ITIMER_REAL, limit_s)
    try:
        rd = reader_factory(io.BytesIO(data)) if reader_factory else DiffXReader(io.BytesIO(data))
        for r in rd:
            recs.append(absrec(r) if abstract else None)     # contract mode does not look at records
    except DiffXParseError as e:
        end = 'parse'
        line = e.linenum if isinstance(e.linenum, int) else -2
        col = e.column if isinstance(e.column, int) else -1
        head = str(e).split(': ', 1)[0] if ': ' in str(e) else str(e)      # the positional part, not the quoted input
        ml = _LINE_RE.search(head) or _LINE_RE.search(str(e))
        mc = _COL_RE.search(head) or (_COL_RE.search(str(e)) if e.column is not None else None)
        msgok = bool(ml) and int(ml.group(1)) == line + 1 and \
            ((mc is None and e.column is None) or
             (mc is not None and e.column is not None and int(mc.group(1)) == e.column + 1))
    except _Timeout:
        end = 'timeout'
    except Exception as e:           # noqa
        end = 'other:' + type(e).__name__
    finally:
        signal.setitimer(signal.ITIMER_REAL, 0)
        signal.signal(signal.SIGALRM, old)
    return recs, end, line, col, msgok


def case(cid, mode, data, cat, result=None, prefixok=True, ship_recs=True, base=None, baseend='done',
         ins=None, ship_file=True, dom=None):
    recs, end, line, col, msgok = result if result is not None else read_bytes(data)
    return {'id': cid, 'mode': mode, 'file': bl(data) if ship_file else [], 'cmap': cmap_for(data, cat),
            'recs': recs if ship_recs else [], 'end': end, 'line': line, 'col': col,
            'msgok': msgok, 'prefixok': bool(prefixok), 'base': base or [], 'baseend': baseend,
            'ins': ins or [], 'dom': dom or {'end': 'ok', 'closed': True}}


class CloseLogStream(io.BytesIO):
    pass


def dom_load(data):
    """DiffX.from_stream over a stream we own: (family of outcome, closed afterwards)."""
    from pydiffx.dom import DiffX
    from harness.abstraction import exc_family
    st = io.BytesIO(data)
    end = 'ok'
    closed_in_handler = True
    old = signal.signal(signal.SIGALRM, _alarm)
    signal.setitimer(signal.ITIMER_REAL, 10)
    try:
        DiffX.from_stream(st)
    except _Timeout:
        end = 'timeout'
    except Exception as e:       # noqa
        end = exc_family(e)
        # looked at where a caller sees it first: in the handler, while the exception (and every frame and
        # suspended generator its traceback refers to) is still alive
        closed_in_handler = bool(st.closed)
    finally:
        signal.setitimer(signal.ITIMER_REAL, 0)
        signal.signal(signal.SIGALRM, old)
    return {'end': end, 'closed': bool(st.closed) and closed_in_handler}


class IOLog(object):
    """A stream that logs every operation the reader performs on it (Trace_ReaderIO).  read and seek are the
    two operations ReaderIO.tla models; any other method still works but marks the log as not modelled."""

    def __init__(self, data):
        self._fp = io.BytesIO(data)
        self.ev = []

    def _e(self, op, n=0, got=0, off=0, sec=''):
        self.ev.append({'op': op, 'n': n, 'got': got, 'pos': self._fp.tell(), 'off': off, 'sec': sec})

    def read(self, n=-1):
        pos = self._fp.tell()
        got = self._fp.read(n)
        if not isinstance(n, int) or n < 0 or n >= 2 ** 30:
            self.ev.append({'op': 'other', 'n': 0, 'got': 0, 'pos': pos, 'off': 0, 'sec': 'read(%r)' % (n,)})
        else:
            self.ev.append({'op': 'read', 'n': n, 'got': len(got), 'pos': pos, 'off': 0, 'sec': ''})
        return got

    def seek(self, off, whence=0):
        r = self._fp.seek(off, whence)
        self._e('seek', n=whence, off=off)
        return r

    def tell(self):
        return self._fp.tell()

    def __getattr__(self, name):
        self._e('other', sec=name)
        return getattr(self._fp, name)


def io_trace(tid, data, reader_factory=None, limit_s=10):
    """The read/seek/yield log of the real reader over data."""
    from pydiffx import DiffXReader
    from pydiffx.errors import DiffXParseError
    fp = IOLog(data)
    end = 'done'
    old = signal.signal(signal.SIGALRM, _alarm)
    signal.setitimer(signal.ITIMER_REAL, limit_s)
    try:
        rd = (reader_factory or DiffXReader)(fp)
        for r in rd:
            fp._e('yield', sec=str(r.get('section')))
    except DiffXParseError:
        end = 'parse'
    except _Timeout:
        end = 'timeout'
    except Exception as e:           # noqa
        end = 'other:' + type(e).__name__
    finally:
        signal.setitimer(signal.ITIMER_REAL, 0)
        signal.signal(signal.SIGALRM, old)
    return {'id': tid, 'stream': bl(data), 'end': end, 'ev': fp.ev}

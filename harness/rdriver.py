"""Drive the real DiffXReader over arbitrary bytes and record what it did."""
import io
import re
import signal

from harness.abstraction import absrec, bl
from harness.wdriver import cmap_for


class _Timeout(Exception):
    pass


def _alarm(signum, frame):
    raise _Timeout()


_MSG_RE = re.compile(r'^Error on line (\d+)(?:, column (\d+))?: ')


def read_bytes(data, reader_factory=None, limit_s=10):
    """(recs, end, line, col, msgok) of iterating the real reader over data."""
    from pydiffx import DiffXReader
    from pydiffx.errors import DiffXParseError
    recs = []
    end = 'done'
    line = -1
    col = -1
    msgok = True
    old = signal.signal(signal.SIGALRM, _alarm)
    signal.setitimer(signal.ITIMER_REAL, limit_s)
    try:
        rd = reader_factory(io.BytesIO(data)) if reader_factory else DiffXReader(io.BytesIO(data))
        for r in rd:
            recs.append(absrec(r))
    except DiffXParseError as e:
        end = 'parse'
        line = e.linenum if isinstance(e.linenum, int) else -2
        col = e.column if isinstance(e.column, int) else -1
        m = _MSG_RE.match(str(e))
        msgok = bool(m) and int(m.group(1)) == line + 1 and \
            ((m.group(2) is None and e.column is None) or
             (m.group(2) is not None and e.column is not None and int(m.group(2)) == e.column + 1))
    except _Timeout:
        end = 'timeout'
    except Exception as e:           # noqa
        end = 'other:' + type(e).__name__
    finally:
        signal.setitimer(signal.ITIMER_REAL, 0)
        signal.signal(signal.SIGALRM, old)
    return recs, end, line, col, msgok


def case(cid, mode, data, cat, result=None, prefixok=True, ship_recs=True, base=None, baseend='done',
         ins=None, ship_file=True, dom=None):
    recs, end, line, col, msgok = result if result is not None else read_bytes(data)
    return {'id': cid, 'mode': mode, 'file': bl(data) if ship_file else [], 'cmap': cmap_for(data, cat),
            'recs': recs if ship_recs else [], 'end': end, 'line': line, 'col': col,
            'msgok': msgok, 'prefixok': bool(prefixok), 'base': base or [], 'baseend': baseend,
            'ins': ins or [], 'dom': dom or {'end': 'ok', 'closed': True}}


class CloseLogStream(io.BytesIO):
    pass


def dom_load(data):
    """DiffX.from_stream over a stream we own: (family of outcome, closed afterwards)."""
    from pydiffx.dom import DiffX
    from harness.abstraction import exc_family
    st = io.BytesIO(data)
    end = 'ok'
    old = signal.signal(signal.SIGALRM, _alarm)
    signal.setitimer(signal.ITIMER_REAL, 10)
    try:
        DiffX.from_stream(st)
    except _Timeout:
        end = 'timeout'
    except Exception as e:       # noqa
        end = exc_family(e)
    finally:
        signal.setitimer(signal.ITIMER_REAL, 0)
        signal.signal(signal.SIGALRM, old)
    return {'end': end, 'closed': bool(st.closed)}

"""Common machinery of every check: tiers, seeds, verdict bookkeeping,
known findings, replay files, evidence files, exit codes.

Exit codes: 0 property held on everything explored (KNOWN-FINDING lines allowed)
            1 at least one VIOLATION line printed
            2 machinery failure (TLC crashed, spec self-check failed, canary accepted)
"""
import json
import os
import sys
import time
import traceback

from harness import tlcrun
from harness.tlcrun import MachineryError

VERIF = tlcrun.VERIF
_OUT = os.environ.get('VERIF_OUT') or VERIF
EVID = os.path.join(_OUT, 'evidence')
REPLAYS = os.path.join(_OUT, 'replays')
KNOWN = os.path.join(VERIF, 'known_findings.json')


def load_known():
    try:
        with open(KNOWN) as f:
            return json.load(f)['findings']
    except FileNotFoundError:
        return []


class Run(object):
    def __init__(self, pid, tier, seed):
        self.pid = pid
        self.tier = tier
        self.seed = seed
        self.t0 = time.time()
        self.states = 0
        self.transitions = 0
        self.traces = 0
        self.evaluations = 0
        self.distinct = set()
        self.samples = []
        self.violations = []        # (why, replay path)
        self.known_hit = {}         # deviation -> count
        self.notes = {}
        self.mc_runs = []
        self.canaries = [0, 0]      # planted (usable), rejected
        self.canaries_attempted = 0
        self.cmds = []
        self.known = [k for k in load_known() if k['property'] == pid]
        self.assumptions = []
        self.nreplay = 0
        self._replayed = set()

    # ---------------------------------------------------------------- model checking
    def mc(self, module, cfg, expect='ok', workers=16, timeout=1800, extra=(), env=None, note=None,
           xmx='6g'):
        """Model-check spec/<module>.tla.  expect='ok': every invariant must hold
        (a failure is a bug in the specification -> machinery error).
        expect='violation': TLC must report an invariant violation (used for
        ASBUILT configs documenting an open finding)."""
        r = tlcrun.run_tlc(module, cfg, workers=workers, timeout=timeout, extra=extra, env=env, xmx=xmx,
                           coverage=(self.tier == 'quick' and module in ('Scope', 'ReadUntil') and 'Terminates' not in cfg))
        self.states += r['distinct']
        self.transitions += r['states']
        self.cmds.append(r['cmd'])
        rec = {'module': module, 'note': note or '', 'distinct_states': r['distinct'],
               'states_generated': r['states'], 'depth': r['depth'], 'wall_s': round(r['wall'], 2),
               'expect': expect}
        if r.get('actions'):
            # per-action (distinct states : states generated); an action never taken would mean vacuity
            rec['action_coverage'] = {k: '%d:%d' % tuple(v) for k, v in r['actions'].items()}
            rec['actions_never_taken'] = sorted(k for k, v in r['actions'].items() if v[1] == 0 and k != 'Init')
        self.mc_runs.append(rec)
        if expect == 'ok':
            if not r['ok']:
                raise MachineryError('model check %s (%s) failed:\n%s' % (module, note, r['out'][-4000:]))
        elif expect == 'violation':
            if 'is violated' not in r['out'] and 'Error:' not in r['out']:
                raise MachineryError('model check %s (%s) was expected to produce a counterexample '
                                     'but did not' % (module, note))
            rec['counterexample'] = True
        return r

    # ---------------------------------------------------------------- trace validation
    def judge(self, module, traces, tables=None, shards=None, canary_ids=(), describe=None,
              timeout=3600, cfg_extra='', replay_of=None, xmx='1500m', with_tables=True, out_of_scope_devs=(),
              advisory=None):
        """Have TLC judge traces.  canary_ids: ids of deliberately corrupted
        traces that MUST be rejected.  Returns verdicts."""
        verdicts, st = tlcrun.validate(module, traces, tables, shards=shards, timeout=timeout,
                                       cfg_extra=cfg_extra, xmx=xmx, with_tables=with_tables)
        self.states += st['distinct']
        self.transitions += st['states']
        self.cmds.extend(st['cmds'])
        canary_ids = set(canary_ids)
        byid = None
        for tr in traces:
            tid = tr['id']
            status, idx, why = verdicts[tid]
            if tid in canary_ids:
                self.canaries_attempted += 1
                orig = verdicts.get(tr.get('canary_of'))
                if orig is not None and orig[0] != 'ok':
                    continue        # the trace it was derived from is not accepted itself: not a usable canary
                if status == 'SKIP':
                    continue        # the corrupted copy landed in an unspecified zone: not a usable canary
                self.canaries[0] += 1
                if status == 'FAIL':
                    self.canaries[1] += 1
                else:
                    raise MachineryError('canary %r was accepted (%s): the trace specification '
                                         'does not bind' % (tid, why))
                continue
            self.traces += 1
            if status in ('ok', 'SKIP'):
                if status == 'SKIP':
                    self.notes['unspecified_skipped'] = self.notes.get('unspecified_skipped', 0) + 1
                continue
            if status == 'DEV':
                if why.startswith('DEV:'):
                    why = why[4:]
                if why in out_of_scope_devs:
                    # an input outside this property's quantifier (it belongs to another property's check)
                    self.notes['outside_quantifier:' + why] = self.notes.get('outside_quantifier:' + why, 0) + 1
                    continue
                if self._known_open(why):
                    self.known_hit[why] = self.known_hit.get(why, 0) + 1
                    if 'known:' + why not in self.notes:
                        self.notes['known:' + why] = describe(tr) if describe else tid
                    continue
                why = 'needs-deviation-' + why
            if why.startswith('SELFCHECK'):
                raise MachineryError('spec self-check failed on trace %r: %s' % (tid, why))
            if advisory:
                # a layer that binds an implementation-shaped model to the code: a mismatch means the model no
                # longer describes the code (reported in the evidence), not that the property is violated
                d = self.notes.setdefault(advisory, {})
                d[why] = d.get(why, 0) + 1
                continue
            path = self.write_replay(tr if replay_of is None else replay_of(tr),
                                     {'module': module, 'event_index': idx, 'failing_clause': why,
                                      'with_tables': with_tables},
                                     tables=_tables_for(tr, tables))
            self.violations.append((why, path))
        return verdicts

    def _known_open(self, dev):
        return any(k.get('deviation') == dev and k.get('status') == 'open' for k in self.known)

    def write_replay(self, obj, info, tables=None):
        os.makedirs(REPLAYS, exist_ok=True)
        self.nreplay += 1
        path = os.path.join(REPLAYS, '%s-%d.json' % (self.pid, self.nreplay))
        clause = info.get('failing_clause')
        first = clause not in self._replayed
        self._replayed.add(clause)
        if self.nreplay <= 25 or first:
            with open(path, 'w') as f:
                json.dump({'property': self.pid, 'info': info, 'case': obj, 'tables': tables}, f, default=repr)
        return path

    def violation(self, why, case):
        path = self.write_replay(case, {'failing_clause': why})
        self.violations.append((why, path))

    def tolerant(self, fn, default=None):
        """Canary construction must never turn a run into a machinery failure (a changed library can make
        the recorded traces look unlike anything the corruption code expects)."""
        try:
            return fn()
        except Exception as e:      # noqa
            self.notes['canary_construction_failed'] = '%s: %s' % (type(e).__name__, e)
            return [] if default is None else default

    # ---------------------------------------------------------------- bookkeeping
    def count(self, key, nontrivial=True):
        self.evaluations += 1
        if nontrivial:
            self.distinct.add(key)

    def sample(self, s, limit=6):
        if len(self.samples) < limit:
            self.samples.append(s)

    def finish(self, rule, explanation, level='model_checking', extra=None):
        wall = time.time() - self.t0
        if self.canaries_attempted and not self.canaries[1] and not self.violations:
            raise MachineryError('no usable canary was rejected in this run: the binding was not demonstrated')
        cov = {
            'states': max(self.states, 1),
            'transitions': max(self.transitions, 1),
            'traces_validated_against_impl': self.traces,
            'samples': self.samples or ['(none)'],
            'evaluations': max(self.evaluations, 1),
            'distinct_nontrivial': len(self.distinct),
            'rule': rule,
            'explanation': explanation,
            'model_checking_runs': self.mc_runs,
            'canaries_planted': self.canaries[0],
            'canaries_rejected': self.canaries[1],
            'known_findings_hit': self.known_hit,
            'checker_cmd': self.cmds[0] if self.cmds else '',
            'notes': self.notes,
        }
        if extra:
            cov.update(extra)
        ev = {
            'property_id': self.pid,
            'tier': self.tier,
            'seed': self.seed,
            'level': level,
            'coverage': cov,
            'assumptions': self.assumptions,
            'wall_s': round(wall, 2),
            'violations': len(self.violations),
        }
        os.makedirs(EVID, exist_ok=True)
        with open(os.path.join(EVID, self.pid + '.json'), 'w') as f:
            json.dump(ev, f, indent=1, sort_keys=True, default=repr)
        for k in self.known:
            if k.get('status') == 'open' and k.get('deviation') in self.known_hit:
                print('KNOWN-FINDING: property=%s %s: %s (%d cases this run)'
                      % (self.pid, k['deviation'], k['text'], self.known_hit[k['deviation']]))
        seen = set()
        for why, path in self.violations:
            if why in seen and len(seen) > 0:
                continue
            seen.add(why)
            print('VIOLATION property=%s replay=%s  (%s)' % (self.pid, path, why))
        print('%s %s: %d states, %d transitions, %d traces judged by TLC, %d evaluations, '
              '%d canaries rejected, %d violations, %.1fs'
              % (self.pid, self.tier, self.states, self.transitions, self.traces, self.evaluations,
                 self.canaries[1], len(self.violations), wall))
        return 1 if self.violations else 0


def _tables_for(tr, tables):
    """Only the codec tables a trace refers to (replay files stay small)."""
    if not tables:
        return None
    txt = json.dumps(tr)
    return {k: v for k, v in tables.items() if k == '_' or ('"tid": "%s"' % k) in txt or ('"tid":"%s"' % k) in txt}


def replay(pid, path):
    """Re-judge a recorded counterexample with the current specification; for reader cases also re-run
    the current code on the recorded input.  Exit 1 if it is (still) a violation."""
    with open(path) as f:
        rp = json.load(f)
    info = rp['info']
    case = rp['case']
    module = info.get('module')
    if not module:
        print('replay file has no trace module: %s' % info)
        return 2
    cases = [dict(case, id='recorded')]
    if module == 'Trace_Reader' and case.get('file') is not None:
        from harness import rdriver
        data = bytes(case['file'])
        recs, end, line, col, msgok = rdriver.read_bytes(data)
        now = dict(case, id='current-code', recs=recs, end=end, line=line, col=col, msgok=msgok)
        if case.get('mode') == 'contract':
            now['dom'] = rdriver.dom_load(data)
        if case.get('mode') not in ('cut', 'unknown'):
            cases.append(now)
    verdicts, _st = tlcrun.validate(module, cases, rp.get('tables'), shards=1,
                                    with_tables=info.get('with_tables', True))
    bad = False
    for c in cases:
        st, idx, why = verdicts[c['id']]
        print('%s: %s %s (event %d)' % (c['id'], st, why, idx))
        if c['id'] == cases[-1]['id'] and st in ('FAIL', 'DEV'):
            bad = True
    if bad:
        print('VIOLATION property=%s replay=%s' % (pid, path))
    return 1 if bad else 0


def main(pid, fn, argv):
    import argparse
    ap = argparse.ArgumentParser()
    ap.add_argument('--tier', default=os.environ.get('VERIF_TIER', 'quick'))
    ap.add_argument('--replay')
    a = ap.parse_args(argv)
    seed = int(os.environ.get('VERIF_SEED', '0') or 0)
    os.environ.setdefault('PYTHONHASHSEED', '0')
    run = Run(pid, a.tier, seed)
    try:
        if a.replay:
            return replay(pid, a.replay)
        return fn(run)
    except MachineryError as e:
        sys.stderr.write('MACHINERY FAILURE in %s: %s\n' % (pid, e))
        return 2
    except Exception:
        traceback.print_exc()
        sys.stderr.write('MACHINERY FAILURE in %s (harness exception)\n' % pid)
        return 2

"""Running TLC: model checking configs and batched trace validation.

TLC is the judge.  Python only writes traces / configs and parses verdict
lines.  Exit-code conventions of the callers: TLC failing for any reason that
is not a verdict is a machinery failure (exit 2), never a VIOLATION.
"""
import json
import os
import re
import shutil
import subprocess
import sys
import time
from concurrent.futures import ThreadPoolExecutor

VERIF = os.path.dirname(os.path.dirname(os.path.abspath(__file__)))
SPEC = os.path.join(VERIF, 'spec')
BUILD = os.path.join(VERIF, 'build')
JAR = '/opt/veriftools/tla/tla2tools.jar:/opt/veriftools/tla/CommunityModules-deps.jar'


class MachineryError(Exception):
    pass


def _die_with_parent():
    """preexec_fn: the JVM is killed when the harness process that started it dies (no orphaned TLC)."""
    try:
        import ctypes
        import signal
        ctypes.CDLL('libc.so.6').prctl(1, signal.SIGKILL)      # PR_SET_PDEATHSIG
    except Exception:       # noqa
        pass


def scratch(name):
    d = os.path.join(BUILD, '%s-%d-%d' % (name, os.getpid(), int(time.time() * 1000) % 100000000))
    os.makedirs(d, exist_ok=True)
    return d


def _java(xmx='3g', deque=False, gc_threads=None):
    cmd = ['java', '-Xss512m', '-Xmx' + xmx, '-XX:+UseParallelGC']
    if gc_threads:
        cmd.append('-XX:ParallelGCThreads=%d' % gc_threads)     # many single-worker JVMs run side by side
    if deque:
        cmd.append('-Dtlc2.tool.queue.IStateQueue=StateDeque')
    return cmd + ['-cp', JAR, 'tlc2.TLC']


_STATS_RE = re.compile(r'(\d+) states generated, (\d+) distinct states found, (\d+) states left on queue')
_DEPTH_RE = re.compile(r'The depth of the complete state graph search is (\d+)')


def run_tlc(module, cfg_text, env=None, workers=1, timeout=900, extra=(), xmx='3g',
            name=None, keep=False, coverage=False):
    """Run TLC on spec/<module>.tla with the given cfg text.

    Returns dict(rc, out, states, distinct, depth, wall, cmd, ok) where ok means
    TLC finished without reporting any error.
    """
    d = scratch(name or module)
    cfg = os.path.join(d, module + '.cfg')
    with open(cfg, 'w') as f:
        f.write(cfg_text)
    cmd = _java(xmx) + ['-workers', str(workers), '-metadir', os.path.join(d, 'states'),
                        '-noGenerateSpecTE', '-config', cfg]
    if coverage:
        cmd += ['-coverage', '1']
    cmd += list(extra) + [module + '.tla']
    e = dict(os.environ)
    e.update(env or {})
    t0 = time.time()
    try:
        p = subprocess.run(cmd, cwd=SPEC, env=e, stdout=subprocess.PIPE, stderr=subprocess.STDOUT,
                           timeout=timeout, preexec_fn=_die_with_parent)
        out = p.stdout.decode('utf-8', 'replace')
        rc = p.returncode
    except subprocess.TimeoutExpired as ex:
        out = (ex.stdout or b'').decode('utf-8', 'replace') + '\nTIMEOUT'
        rc = -9
    wall = time.time() - t0
    res = {'rc': rc, 'out': out, 'wall': wall, 'cmd': ' '.join(cmd), 'dir': d,
           'states': 0, 'distinct': 0, 'depth': 0}
    ms = _STATS_RE.findall(out)
    if ms:
        res['states'], res['distinct'] = int(ms[-1][0]), int(ms[-1][1])
    m = _DEPTH_RE.search(out)
    if m:
        res['depth'] = int(m.group(1))
    if coverage:
        acts = {}
        for m in re.finditer(r'^<(\w+) line \d+, col \d+ to line \d+, col \d+ of module (\w+)[^>]*>: (\d+):(\d+)', out, re.M):
            name = m.group(1)
            acts[name] = [acts.get(name, [0, 0])[0] + int(m.group(3)), acts.get(name, [0, 0])[1] + int(m.group(4))]
        res['actions'] = acts
    res['ok'] = (rc == 0 and 'Error:' not in out)
    if not keep:
        shutil.rmtree(d, ignore_errors=True)
    return res


_V_RE = re.compile(r'<<\s*"V",\s*("[^"]*"|-?\d+),\s*"(\w+)",\s*(-?\d+),\s*"([^"]*)"\s*>>', re.S)


def validate(module, traces, tables=None, shards=None, timeout=1800, extra_env=None,
             cfg_extra='', xmx='1500m', name=None, with_tables=True):
    """Validate traces (list of dicts with unique 'id') against spec/<module>.tla.

    Returns (verdicts, stats): verdicts maps id -> (status, index, why), with
    status "ok" / "FAIL" / "KNOWN" / "SKIP"; every trace must get exactly one verdict line,
    otherwise MachineryError is raised.
    """
    if not traces:
        return {}, {'states': 0, 'distinct': 0, 'wall': 0.0, 'jvms': 0, 'cmds': []}
    n = len(traces)
    if shards is None:
        shards = max(1, min(int(os.environ.get('VERIF_SHARDS', '12')), n // 40))
    shards = max(1, min(shards, n))
    d = scratch(name or module)
    tfile = os.path.join(d, 'tables.json')
    with open(tfile, 'w') as f:
        json.dump(tables or {'_': {'enc': {}, 'dec': {}}}, f)
    cfg = os.path.join(d, module + '.cfg')
    with open(cfg, 'w') as f:
        f.write('SPECIFICATION Spec\n' + ('CONSTANT Tables <- TraceTables\n' if with_tables else '')
                + 'CHECK_DEADLOCK FALSE\n' + cfg_extra)
    parts = [traces[k::shards] for k in range(shards)]
    files = []
    for k, part in enumerate(parts):
        fn = os.path.join(d, 'trace%d.ndjson' % k)
        with open(fn, 'w') as f:
            for tr in part:
                f.write(json.dumps(tr, separators=(',', ':')) + '\n')
        files.append(fn)

    def one(k):
        cmd = _java(xmx, gc_threads=2) + ['-workers', '1', '-metadir', os.path.join(d, 'states%d' % k),
                            '-noGenerateSpecTE', '-config', cfg, module + '.tla']
        e = dict(os.environ)
        e['TRACE_FILE'] = files[k]
        e['TABLES_FILE'] = tfile
        e.update(extra_env or {})
        t0 = time.time()
        try:
            p = subprocess.run(cmd, cwd=SPEC, env=e, stdout=subprocess.PIPE, stderr=subprocess.STDOUT,
                               timeout=timeout, preexec_fn=_die_with_parent)
            return p.returncode, p.stdout.decode('utf-8', 'replace'), time.time() - t0, ' '.join(cmd)
        except subprocess.TimeoutExpired as ex:
            return -9, (ex.stdout or b'').decode('utf-8', 'replace') + '\nTIMEOUT', time.time() - t0, ' '.join(cmd)

    t0 = time.time()
    with ThreadPoolExecutor(max_workers=shards) as ex:
        results = list(ex.map(one, range(shards)))
    verdicts = {}
    states = distinct = 0
    cmds = []
    for k, (rc, out, wall, cmd) in enumerate(results):
        cmds.append(cmd)
        ms = _STATS_RE.findall(out)
        if ms:
            states += int(ms[-1][0])
            distinct += int(ms[-1][1])
        if 'TLC threw an unexpected exception' in out or 'TLC was unable to fingerprint' in out:
            # TLC re-prints buffered output after such an error: report the error itself, not a duplicate verdict
            keepf = os.path.join(BUILD, 'last-tlc-failure.log')
            with open(keepf, 'w') as f:
                f.write(cmd + '\n' + out[:200000] + '\n...\n' + out[-20000:])
            i0 = out.find('Error: TLC threw')
            raise MachineryError('TLC failed while evaluating %s (shard %d); log: %s\n%s'
                                 % (module, k, keepf, out[i0:i0 + 600] if i0 >= 0 else out[-2000:]))
        for m in _V_RE.finditer(out):
            tid = m.group(1)
            tid = tid[1:-1] if tid.startswith('"') else int(tid)
            if tid in verdicts:
                raise MachineryError('two verdicts for trace %r' % (tid,))
            verdicts[tid] = (m.group(2), int(m.group(3)), m.group(4))
        if rc != 0 or 'Error:' in out:
            keepf = os.path.join(BUILD, 'last-tlc-failure.log')
            with open(keepf, 'w') as f:
                f.write(cmd + '\n' + out)
            raise MachineryError('TLC failed (rc=%s) on shard %d of %s; log: %s\n%s'
                                 % (rc, k, module, keepf, out[-3000:]))
    missing = [tr['id'] for tr in traces if tr['id'] not in verdicts]
    if missing:
        raise MachineryError('%d traces without verdict, e.g. %r' % (len(missing), missing[:3]))
    shutil.rmtree(d, ignore_errors=True)
    return verdicts, {'states': states, 'distinct': distinct, 'wall': time.time() - t0,
                      'jvms': shards, 'cmds': cmds[:1]}


if __name__ == '__main__':
    r = run_tlc(sys.argv[1], open(sys.argv[2]).read(), workers=16)
    print(r['out'])

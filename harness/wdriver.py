"""Drive the real DiffXWriter / DiffXReader and record what happened.

The caller owns the stream, so no source hook is needed: a BytesIO subclass
logs every operation; the abstract state of the writer is observable as the
bytes of the stream.
"""
import io
import os

from harness.abstraction import (NOENC, NULLV, absrec, bl, cps, exc_family, jabs)


class LogStream(io.BytesIO):
    """BytesIO that notices anything other than appending."""

    def __init__(self, *a):
        super(LogStream, self).__init__(*a)
        self.bad_ops = []
        self.closed_by_lib = False

    def write(self, b):
        if self.tell() != len(self.getbuffer()):
            self.bad_ops.append('write-not-at-end')
        return super(LogStream, self).write(b)

    def truncate(self, *a):
        # repositioning alone is harmless (a write that is not at the end is what counts); shrinking is not
        size = a[0] if a and a[0] is not None else self.tell()
        if size < len(self.getbuffer()):
            self.bad_ops.append('truncate')
        return super(LogStream, self).truncate(*a)


def abs_call(op, kw, cat):
    """Abstraction of one writer call (documented argument types only)."""
    c = {'op': op, 'enc': NOENC, 'bad': '', 'text': [], 'indent': -1, 'le': 'none',
         'mime': 'none', 'meta': NULLV, 'raw': [], 'dtype': 'none'}
    bad = []
    e = kw.get('encoding')
    if e is None:
        pass
    elif isinstance(e, str):
        c['enc'] = cat.enc(e)
    else:
        bad.append('enc_type')
    le = kw.get('line_endings')
    if op in ('preamble', 'diff'):
        if le is None:
            pass
        elif le in ('unix', 'dos'):
            c['le'] = le
        else:
            bad.append('le')
    if op == 'preamble':
        t = kw.get('text')
        if isinstance(t, str):
            c['text'] = cps(t)
            cat.note(t)
        else:
            bad.append('text_type')
        ind = kw.get('indent', 4)
        if ind is None:
            c['indent'] = -1
        elif isinstance(ind, int) and not isinstance(ind, bool) and ind >= 0:
            c['indent'] = ind
        else:
            bad.append('indent_type')
        m = kw.get('mimetype')
        if m is None:
            pass
        elif m == 'text/plain':
            c['mime'] = 'plain'
        elif m == 'text/markdown':
            c['mime'] = 'markdown'
        else:
            bad.append('mime')
    elif op == 'meta':
        md = kw.get('metadata')
        if isinstance(md, dict):
            a = jabs(md)
            if _jok(a):
                c['meta'] = a
                cat.note_json(md)
            else:
                bad.append('meta_unserializable')
        else:
            bad.append('meta_type')
        if kw.get('meta_format', 'json') != 'json':
            bad.append('fmt')
    elif op == 'diff':
        d = kw.get('content')
        if isinstance(d, bytes):
            c['raw'] = bl(d)
        else:
            bad.append('diff_content_type')
        dt = kw.get('diff_type')
        if dt is None:
            pass
        elif dt in ('text', 'binary'):
            c['dtype'] = dt
        else:
            bad.append('dtype')
    c['bad'] = ','.join(bad)
    return c


def _jok(a):
    if a['t'] in ('null', 'true', 'false', 'int', 'float', 'str'):
        return True
    if a['t'] == 'arr':
        return all(_jok(x) for x in a['items'])
    if a['t'] == 'obj':
        return all(_jok(x['v']) for x in a['items'])
    return False


def do_call(w, op, kw):
    if op == 'change':
        w.new_change(**kw)
    elif op == 'file':
        w.new_file(**kw)
    elif op == 'preamble':
        kw = dict(kw)
        w.write_preamble(kw.pop('text'), **kw)
    elif op == 'meta':
        kw = dict(kw)
        w.write_meta(kw.pop('metadata'), **kw)
    elif op == 'diff':
        kw = dict(kw)
        w.write_diff(kw.pop('content'), **kw)
    else:
        raise ValueError(op)


def read_event(data, selfcheck=False):
    from pydiffx import DiffXReader
    from pydiffx.errors import DiffXParseError
    recs = []
    end = 'done'
    line = -1
    try:
        for r in DiffXReader(io.BytesIO(data)):
            recs.append(absrec(r))
    except DiffXParseError as e:
        end = 'parse'
        line = e.linenum
    except Exception as e:          # noqa
        end = 'other:' + type(e).__name__
    return {'k': 'read', 'recs': recs, 'end': end, 'line': line, 'selfcheck': bool(selfcheck)}


def _exec(ctor_enc, calls):
    """Run the calls on a fresh real writer; per call (accepted, before, after, nbadops, family)."""
    from pydiffx import DiffXWriter
    s = LogStream()
    w = DiffXWriter(s, encoding=ctor_enc)
    init = s.getvalue()
    res = []
    for op, kw in calls:
        before = s.getvalue()
        nbad = len(s.bad_ops)
        fam = ''
        try:
            do_call(w, op, kw)
        except Exception as e:      # noqa: any raise is a rejection (DESIGN.md 8)
            fam = exc_family(e)
        after = s.getvalue()
        res.append((fam == '', before, after, len(s.bad_ops) - nbad, fam))
    return init, res, s.getvalue()


def run_writer(tid, ctor_enc, calls, cat, chk, read=None, selfcheck=False, twin=None):
    """Execute a concrete call sequence on the real writer; return (trace, bytes, info).

    chk: {'order','bytes','read'} booleans - which clauses the trace is judged on.
    twin (default: chk['order']): also run the sequence without its rejected
    calls and record what each accepted call appended there.
    """
    if twin is None:
        twin = chk['order']
    if read is None:
        read = chk['read']
    init, res, data = _exec(ctor_enc, calls)
    tw = None
    if twin and any(not r[0] for r in res):
        _, tres, _ = _exec(ctor_enc, [c for c, r in zip(calls, res) if r[0]])
        tw = iter(tres)
    ev = [{'k': 'init', 'enc': cat.enc(ctor_enc), 'appended': bl(init)}]
    for (op, kw), (acc, before, after, nbad, fam) in zip(calls, res):
        pref = after.startswith(before)
        app = after[len(before):] if pref else after
        t = app
        if acc and tw is not None:
            tacc, tb, ta, _, _ = next(tw)
            t = ta[len(tb):] if (tacc and ta.startswith(tb)) else b'<twin-rejected>'
        ev.append({'k': 'call', 'c': abs_call(op, kw, cat), 'accepted': acc, 'appended': bl(app),
                   'appendonly': pref and nbad == 0, 'twin': bl(t)})
    if read:
        ev.append(read_event(data, selfcheck))
    return ({'id': tid, 'cmap': cmap_for(data, cat), 'chk': chk, 'ev': ev}, data,
            {'exc': [r[4] for r in res]})


import re
_ENC_RE = re.compile(rb'encoding=([^,\s]+)')


def cmap_for(data, cat, limit=200000):
    """Meaning of every string that occurs as an encoding= value in data."""
    names = set(_ENC_RE.findall(data[:limit]))
    out = []
    for nb in sorted(names):
        try:
            nm = nb.decode('ascii')
        except UnicodeDecodeError:
            out.append({'name': bl(nb), 'codec': {'fam': 'unknown', 'tid': ''}})
            continue
        if nm.isdigit() or (nm.startswith('-') and nm[1:].isdigit()):
            d = {'fam': 'unknown', 'tid': ''}     # reaches the codec layer as an int
        else:
            d = cat.desc(nm)
        out.append({'name': bl(nb), 'codec': d})
    return out

"""Generators of object-model histories (values from the adversarial pools)."""
from harness import pools

ENCS = ['utf-8', 'utf-16', 'latin-1', 'utf-32-be', 'cp1252', 'utf-8-sig', 'UTF-16', 'cp037', 'ascii']


def rand_container_attrs(rng, level, rich=True):
    """Valid keyword attributes for DiffX / add_change / add_file."""
    a = {}
    if rng.random() < 0.4:
        a['encoding'] = rng.choice(ENCS)
    if level < 2 and rng.random() < 0.6:
        a['preamble'] = rng.choice(pools.TEXTS)
        if rng.random() < 0.4:
            a['preamble_encoding'] = rng.choice(ENCS)
        if rng.random() < 0.5:
            a['preamble_indent'] = rng.choice([0, 1, 2, 4, 7])
        if rng.random() < 0.4:
            a['preamble_line_endings'] = rng.choice(['unix', 'dos'])
        if rng.random() < 0.3:
            a['preamble_mimetype'] = rng.choice(['text/plain', 'text/markdown'])
    if level == 2 or rng.random() < 0.6:
        a['meta'] = dict(rng.choice(pools.METAS))
        if rng.random() < 0.3:
            a['meta_encoding'] = rng.choice(ENCS)
        if rng.random() < 0.2:
            a['meta_format'] = 'json'
    if level == 2 and rng.random() < 0.7:
        a['diff'] = rng.choice(pools.DIFFS)
        if rng.random() < 0.3:
            a['diff_encoding'] = rng.choice(['utf-16', 'latin-1', 'utf-8', 'utf-32-le'])
        if rng.random() < 0.4:
            a['diff_line_endings'] = rng.choice(['unix', 'dos'])
        if rng.random() < 0.4:
            a['diff_type'] = rng.choice(['text', 'binary'])
    if level == 0 and rng.random() < 0.2:
        a['version'] = '1.0'
    items = list(a.items())
    rng.shuffle(items)
    return dict(items)


def build_tree(h, rng, via_attrs=True):
    """Build one tree in history h through constructors (and typed attributes); returns tid."""
    h.new(**(rand_container_attrs(rng, 0) if via_attrs else {}))
    tid = len(h.trees)
    for ci in range(1, rng.choice([0, 1, 1, 2, 3]) + 1):
        attrs = rand_container_attrs(rng, 1)
        if via_attrs or rng.random() < 0.5:
            h.addc(tid, **attrs)
        else:
            h.addc(tid)
            for k, v in attrs.items():
                h.set(tid, ci, 0, k, v)
        for fi in range(1, rng.choice([0, 1, 1, 2]) + 1):
            fa = rand_container_attrs(rng, 2)
            if via_attrs or rng.random() < 0.5:
                h.addf(tid, ci, **fa)
            else:
                h.addf(tid, ci)
                for k, v in fa.items():
                    h.set(tid, ci, fi, k, v)
    return tid

"""Generators of object-model histories (values from the adversarial pools)."""
import copy

from harness import pools

ENCS = ['utf-8', 'utf-16', 'latin-1', 'utf-32-be', 'cp1252', 'utf-8-sig', 'UTF-16', 'cp037', 'ascii']


def rand_container_attrs(rng, level, rich=True):
    """Valid keyword attributes for DiffX / add_change / add_file."""
    a = {}
    if rng.random() < 0.4:
        a['encoding'] = rng.choice(ENCS)
    if level < 2 and rng.random() < 0.6:
        a['preamble'] = rng.choice(pools.TEXTS)
        if rich and rng.random() < 0.03:
            a['preamble'] = rng.choice(['caf\udce9', 'x\udc80', '\ud800'])     # lone surrogates: no codec encodes them
        if rng.random() < 0.4:
            a['preamble_encoding'] = rng.choice(ENCS)
        if rng.random() < 0.5:
            a['preamble_indent'] = rng.choice([0, 1, 2, 4, 7])
        if rng.random() < 0.4:
            a['preamble_line_endings'] = rng.choice(['unix', 'dos'])
        if rng.random() < 0.3:
            a['preamble_mimetype'] = rng.choice(['text/plain', 'text/markdown'])
    if level == 2 or rng.random() < 0.6:
        a['meta'] = copy.deepcopy(rng.choice(pools.METAS))    # never hand one mutable object to two trees
        if rng.random() < 0.3:
            a['meta_encoding'] = rng.choice(ENCS)
        if rng.random() < 0.2:
            a['meta_format'] = 'json'
    if rich and rng.random() < 0.04:
        # a name that cannot be written as an option value, or that names no codec: the typed attribute takes any
        # string; serialising such a tree must be refused (or, for an unknown codec on a container, carried)
        a[rng.choice(['encoding', 'meta_encoding', 'diff_encoding'] if level == 2 else ['encoding', 'preamble_encoding', 'meta_encoding'])] = \
            rng.choice(['latin-1\n', 'utf 8', 'utf-8 ', 'utf-9', 'UTF-8\r'])
    if level == 2 and rng.random() < 0.7:
        a['diff'] = rng.choice(pools.DIFFS)
        if rng.random() < 0.3:
            a['diff_encoding'] = rng.choice(['utf-16', 'latin-1', 'utf-8', 'utf-32-le'])
        if rng.random() < 0.4:
            a['diff_line_endings'] = rng.choice(['unix', 'dos'])
        if rng.random() < 0.4:
            a['diff_type'] = rng.choice(['text', 'binary'])
    if level == 0 and rng.random() < 0.2:
        a['version'] = '1.0'
    items = list(a.items())
    rng.shuffle(items)
    return dict(items)


def build_tree(h, rng, via_attrs=True):
    """Build one tree in history h through constructors (and typed attributes); returns tid."""
    h.new(**(rand_container_attrs(rng, 0) if via_attrs else {}))
    tid = len(h.trees)
    for ci in range(1, rng.choice([0, 1, 1, 2, 3]) + 1):
        attrs = rand_container_attrs(rng, 1)
        if via_attrs or rng.random() < 0.5:
            h.addc(tid, **attrs)
        else:
            h.addc(tid)
            for k, v in attrs.items():
                h.set(tid, ci, 0, k, v)
        for fi in range(1, rng.choice([0, 1, 1, 2]) + 1):
            fa = rand_container_attrs(rng, 2)
            if via_attrs or rng.random() < 0.5:
                h.addf(tid, ci, **fa)
            else:
                h.addf(tid, ci)
                for k, v in fa.items():
                    h.set(tid, ci, fi, k, v)
    if rng.random() < 0.12 and h.trees[tid - 1].changes:
        h.addf(tid, len(h.trees[tid - 1].changes))          # an empty trailing file (valid as the last section)
    elif rng.random() < 0.06:
        h.addc(tid)                                          # an empty trailing change
    return tid


SET_ATTRS = ['encoding', 'meta', 'meta_encoding', 'preamble', 'preamble_encoding', 'preamble_indent',
             'preamble_line_endings', 'preamble_mimetype', 'diff', 'diff_encoding', 'diff_line_endings', 'diff_type',
             'meta_format', 'version']
STAT_DIFFS = [b'--- a\n+++ b\n@@ -1 +1 @@\n-a\n+b\n', b'@@ -1,2 +1,3 @@\n a\n-b\n+c\n+d\n', b'@@ -0,0 +1 @@\n+x\n',
              b'@@ -1 +1 @@\r\n-a\r\n+b\r\n', b'not a diff\n', b'@@ -1,3 +1 @@\n-a\n']


def value_for(attr, v, rng):
    """A value for a typed attribute; v = 0 picks a canonical valid value, others vary (incl. invalid)."""
    valid = {
        'encoding': ['utf-8', 'utf-16', 'latin-1'], 'meta_encoding': ['utf-8', 'utf-16'], 'preamble_encoding': ['utf-16', 'latin-1'],
        'diff_encoding': ['utf-8', 'latin-1'], 'meta': [{'k': 'v'}, {'path': 'x', 'stats': {'custom': 1}}, {}],
        'preamble': ['text', 'é\nz\n', 'a\r\nb'], 'preamble_indent': [0, 2, 4], 'preamble_line_endings': ['unix', 'dos'],
        'preamble_mimetype': ['text/plain', 'text/markdown'], 'diff': STAT_DIFFS, 'diff_line_endings': ['unix', 'dos'],
        'diff_type': ['text', 'binary'], 'meta_format': ['json'], 'version': ['1.0'],
    }
    invalid = [None, 5, 'mac', b'b', [], 1.5, 'text/html', {'a': 1}, '2.0']
    if v >= 4:
        return rng.choice(invalid)
    vals = valid[attr]
    return vals[v % len(vals)]


def run_history(h, beh, rng):
    """Concretise a Gen_Dom behaviour on History h (indices are reinterpreted against the ACTUAL trees:
    an operation whose target does not exist, e.g. after a failed parse, is skipped)."""
    blobs = {}
    for e in beh:
        op = e['op']
        nt = len(h.trees)
        if op == 'new':
            h.new(**(rand_container_attrs(rng, 0) if e['v'] else {}))
            continue
        t = e['t']
        if t < 1 or t > nt:
            continue
        tree = h.trees[t - 1]
        ci, fi = e['ci'], e['fi']
        if ci > len(tree.changes) or (ci and fi > len(tree.changes[ci - 1].files)):
            continue
        lvl = 0 if ci == 0 else (1 if fi == 0 else 2)
        if op == 'addc':
            h.addc(t, **(rand_container_attrs(rng, 1) if e['v'] else {}))
        elif op == 'addf':
            attrs = rand_container_attrs(rng, 2) if e['v'] else {'meta': {'path': 'f'}}
            if e['v'] % 2 == 0:
                attrs['diff'] = rng.choice(STAT_DIFFS)
            h.addf(t, ci, **attrs)
        elif op == 'set':
            a = SET_ATTRS[(e['a'] - 1) % len(SET_ATTRS)]
            h.set(t, ci, fi, a, value_for(a, e['v'], rng))
        elif op == 'mut':
            k = rng.choice(['k', 'stats', 'é'])
            h.mut(t, ci, fi, k, rng.choice([{'custom': 1}, {'insertions': 5}]) if k == 'stats'
                  else rng.choice([1, 'v', None, {'n': [1]}]))
        elif op == 'mut2':
            h.mut2(t, ci, fi, 'stats', *rng.choice([('insertions', 99), ('custom', 'x'), ('lines changed', 7)]))
        elif op == 'opt':
            sec = rng.choice(['self', 'meta'] + (['pre'] if lvl < 2 else ['diff']))
            if e['v']:
                h.opt(t, ci, fi, sec, rng.choice(['encoding', 'custom']), rng.choice(['utf-16', 'latin-1', 'utf-8']))
            else:
                h.opt(t, ci, fi, sec, rng.choice(['encoding', 'custom']), delete=True)
        elif op == 'ser':
            x = h.ser(t)
            if x['status'] == 'ok':
                blobs[t] = bytes(x['bytes'])
                h.ser(t, same_as=blobs[t])
        elif op == 'parse':
            x = h.ser(t)
            if x['status'] == 'ok':
                h.parse(bytes(x['bytes']))
        elif op == 'cmp':
            if 1 <= e['u'] <= nt:
                h.cmp(t, e['u'])
        elif op == 'repr':
            h.repr(t)
        elif op == 'stats':
            h.stats(t)


def build_from_model(h, t):
    """Build the model tree t (Dom.tla value as JSON, e.g. emitted by MC_Dom) on History h through the
    public API: typed attributes for options, typed content attributes for contents."""
    from harness.abstraction import jconc
    PRE = {'encoding': 'preamble_encoding', 'indent': 'preamble_indent', 'line_endings': 'preamble_line_endings',
           'mimetype': 'preamble_mimetype'}
    META = {'encoding': 'meta_encoding', 'format': 'meta_format'}
    DIFF = {'encoding': 'diff_encoding', 'line_endings': 'diff_line_endings', 'type': 'diff_type'}

    def val(o):
        s = bytes(o['s']).decode('utf-8')
        return int(s) if o['t'] == 'int' else s

    def content(tid, ci, fi, cs, names, attr):
        if cs['kind'] == 'text':
            h.set(tid, ci, fi, attr, ''.join(chr(c) for c in cs['text']))
        elif cs['kind'] == 'bytes':
            h.set(tid, ci, fi, attr, bytes(cs['raw']))
        elif cs['kind'] == 'meta' and cs['meta']['items']:
            h.set(tid, ci, fi, attr, jconc(cs['meta']))
        for o in cs['opts']:
            k = bytes(o['k']).decode()
            h.set(tid, ci, fi, names[k], val(o))

    h.new()
    tid = len(h.trees)
    for o in t['opts']:
        h.set(tid, 0, 0, bytes(o['k']).decode(), val(o))
    content(tid, 0, 0, t['pre'], PRE, 'preamble')
    content(tid, 0, 0, t['meta'], META, 'meta')
    for ci, c in enumerate(t['changes'], 1):
        h.addc(tid)
        for o in c['opts']:
            h.set(tid, ci, 0, bytes(o['k']).decode(), val(o))
        content(tid, ci, 0, c['pre'], PRE, 'preamble')
        content(tid, ci, 0, c['meta'], META, 'meta')
        for fi, f in enumerate(c['files'], 1):
            h.addf(tid, ci)
            for o in f['opts']:
                h.set(tid, ci, fi, bytes(o['k']).decode(), val(o))
            content(tid, ci, fi, f['meta'], META, 'meta')
            content(tid, ci, fi, f['diff'], DIFF, 'diff')
    return tid

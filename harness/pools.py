"""Adversarial value pools and concretisation of abstract writer calls."""

TEXTS = [
    'a', 'a\nb', 'first\n\nsecond\n', ' x\n\n y', '#.change:\nz', '#diffx: version=1.0\n',
    '#..meta: length=3\n{}\n', '@@ -1 +1 @@\n-a\n+b', 'é€', 't\r\nu', 'x\r', '\n\rq',
    'ਊa\nb', '﻿q', 'a\x00b', ' z', '\U0001d11e clef', 'ends\n', 'dos\r\n', '   ',
    '\n', '\r\n', 'ĊċĊ', 'tab\there', '    indented\n  less\n', 'a\n\n\n', '﻿',
    'Summary line\n      \n    code\n', 'a\n \n\t\nb\n',      # lines of blanks only, longer than any indent
    'mixed\r\nthen\nlf\n', 'lf\nthen\r\ncrlf\r\n', 'ഊ਍', 'x' * 130, 'l1\nl2\nl3\nl4\nl5\nl6\nl7\n',
    '\x85next', 'café\n', 'あいう', 'ÿþ', ' ', '\x0b\x0c',
    # code units that contain the bytes of an encoded LF across a character boundary (UTF-16/32, N12)
    '\u0a97\u4e00 x\r\nsecond\r\n', '\u4e00\u0a97\r\nz', '\u0a0d\u0a00\r\n', 'a\u0a00\u000a',
]
EMPTY_TEXT = ''
# very long first lines (beyond 4 KiB / 8 KiB windows) with DOS endings, with and without a final newline
LONG_TEXTS = ['y' * 8300 + '\r\nlast without newline', 'w' * 4200 + '\r\nsecond line\r\n', 'v' * 8200 + '\nunix\n']
LONG_DIFFS = [b'+' + b'z' * 8300 + b'\r\n-q\r\n', b' ' + b'k' * 4200 + b'\r\nlast']

METAS = [
    {'a': 1},
    {'ratio': 0.1, 'timestamp': 1622688385.12345, 'neg': -2.75, 'whole': 3.0, 'list': [0.5, 100.25, 0.001]},
    {'k': 'é', 'z': [1, None, True, {'q': '\n'}]},
    {'s': '\U0001d11e', 'e': {}, 'l': []},
    {'path': 'src/main.c', 'revision': {'old': 'abc', 'new': 'def'}},
    {'n': -5, 'big': 999999999, 't': '\t\\"'},
    {'é': 'x', 'a b': [[]], 'B': False, 'a': 0},
    {'#.change:': '#..file:', 'length': 7},
    {'stats': {'insertions': 1, 'deletions': 2}, 'x\x7f': ' \x00'},
    {'nested': {'a': {'b': {'c': [1, [2, [3, {}]]]}}}},
    {'crlf': 'a\r\nb', 'unicode': 'あ'},
    {'reviewers': [{'name': 'Alice', 'email': 'alice@example.com'}, {'z': 1, 'a': [{'y': 0, 'b': {}}]}]},
    {'b': [[{'d': 1, 'c': 2}]], 'a': {'z': {'y': 1, 'x': 2}}},
]


def rand_json(rng, depth=0):
    """Random JSON value: nested objects/arrays, keys inserted in random order, adversarial strings."""
    r = rng.random()
    if depth >= 3 or r < 0.35:
        return rng.choice([0, 1, -7, 999999999, 0.5, 0.1, -2.75, 3.0, 1622688385.12345, 0.001, True, False, None, '', 'x', 'é', 'a\nb', '\t"\\', '\x7f', '\u2028',
                           '\U0001d11e', '#.meta:', ' '])
    if r < 0.65:
        return [rand_json(rng, depth + 1) for _ in range(rng.randint(0, 3))]
    keys = rng.sample(['name', 'email', 'z', 'a', 'B', 'é', 'a b', '', '10', '9', 'path', 'stats'], rng.randint(0, 4))
    return {k: rand_json(rng, depth + 1) for k in keys}


def rand_meta(rng):
    while True:
        v = rand_json(rng, 0)
        if isinstance(v, dict) and v:
            return v


DIFFS = [
    b'x', b'--- a\n+++ b\n@@ -1 +1 @@\n-a\n+b', b'a\r\nb', b'#..file:', b'\xff\xfe', b'a\n',
    b'\x00\x01', b'-a\r\n+b\r\n', b'#...diff: length=2\nx\n', b'Binary files differ\n',
    b'@@ -1,2 +1,2 @@\n a\n-b\n+c\n\\ No newline at end of file', b'\n', b'\r\n', b'a\rb',
    'déjà\n'.encode('utf-16'), '-x\n+y\n'.encode('utf-16-le'), b' ' * 5, b'a\n\nb\n\n',
    'diff\r\n'.encode('utf-32-be'), b'\n\r', b'x' * 200 + b'\n',
    b'x' + '\n'.encode('utf-16-le'), b'\x00ab' + '\r\n'.encode('utf-32-le'), b'odd\n\x00',     # not whole code units, yet ending in the encoded newline
    b'first\r\nlone lf\nlast\r\n', b'first\nthen crlf\r\nlast\n', b'a\r\n\nb\r\n',     # mixed line endings
]

ENCODINGS = [None, 'utf-8', 'utf-16', 'latin-1', 'utf-32-be', 'utf-16-be', 'utf-32', 'ascii',
             'cp1252', 'utf-8-sig', 'utf-16-le', 'utf-32-le', 'cp037', 'shift_jis',
             'UTF-16', 'utf_8', 'Latin1', 'U32', 'iso-8859-15', 'koi8_r']
CTOR_ENCODINGS = [e for e in ENCODINGS if e]
DIFF_ENCODINGS = [None, None, 'utf-16', 'latin-1', 'utf-8', 'utf-32-le', 'utf-16-be', 'cp037']

INVALID = {
    'change': [{'encoding': 'café'}, {'encoding': 'utf 8'}, {'encoding': 'utf-8 '}, {'encoding': ''}, {'encoding': 'utf-8,x'},
               {'encoding': 'a=b'}, {'encoding': 'utf\u20118'}, {'encoding': 'latin-1\xa0'}, {'encoding': 'utf-8\n'}],
    'file': [{'encoding': 'café'}, {'encoding': 'utf 8'}, {'encoding': ' utf-8'}, {'encoding': ''}, {'encoding': 'latin-1,'},
             {'encoding': 'utf\u20118'}, {'encoding': 'utf-8\r'}],
    'preamble': [
        {'text': b'bytes'}, {'text': None}, {'text': 5}, {'text': ''},
        {'line_endings': 'mac'}, {'line_endings': 'DOS'}, {'line_endings': 1}, {'line_endings': 'do'}, {'line_endings': 'nix'},
        {'line_endings': ''}, {'mimetype': 'text/html'}, {'mimetype': 'TEXT/PLAIN'}, {'mimetype': 'text/'}, {'mimetype': 'plain'},
        {'mimetype': ''},
        {'indent': 'x'}, {'indent': 1.5},
        {'text': '€', 'encoding': 'ascii'}, {'text': 'Ā', 'encoding': 'latin-1'},
        {'text': '\ud800', 'encoding': 'utf-8'}, {'text': 'caf\udce9', 'encoding': 'utf-8'}, {'text': 'x\udc80y', 'encoding': 'latin-1'},
        {'text': 'caf\udce9'}, {'text': 'é', 'encoding': 'shift_jis'},
        {'encoding': 'no-such-codec'}, {'encoding': 'base64'}, {'encoding': 'utf 8'}, {'encoding': ''}, {'encoding': 'utf-8 '},
        {'encoding': 'utf\u20118'}, {'encoding': 'latin-1\xa0'},
    ],
    'meta': [
        {'metadata': []}, {'metadata': None}, {'metadata': 'str'}, {'metadata': {}},
        {'metadata': {'a': object}}, {'metadata': {'a': {1, 2}}}, {'metadata': {'b': b'x'}},
        {'meta_format': 'yaml'}, {'meta_format': None}, {'meta_format': 'js'}, {'meta_format': ''}, {'meta_format': 'son'},
        {'metadata': {'a': '\ud800'}, 'encoding': 'utf-8'},
        {'encoding': 'no-such-codec'}, {'encoding': 'rot13'}, {'encoding': 'utf 8'}, {'encoding': ''}, {'encoding': 'utf\u20118'},
    ],
    'diff': [
        {'content': 'text'}, {'content': None}, {'content': b''}, {'content': bytearray(b'x')},
        {'diff_type': 'patch'}, {'diff_type': 'TEXT'}, {'diff_type': 'tex'}, {'diff_type': 'bin'}, {'diff_type': ''},
        {'line_endings': 'mac'}, {'line_endings': ''}, {'line_endings': 'uni'}, {'line_endings': 'os'},
        {'encoding': 'no-such-codec'}, {'encoding': 'utf 16'}, {'encoding': ''}, {'encoding': 'latin-1 '},
    ],
}


def conc_call(op, e, v, rng, encs=None, invalid=False, simple=False):
    """Concrete (op, kwargs) for an abstract call.

    e: 0 = no encoding argument, k>0 = encs[k % len].  v: variant selector
    (0 = plain defaults).  invalid: substitute one invalid-argument variant.
    """
    encs = encs or ENCODINGS[1:]
    enc = None if e == 0 else encs[(e - 1) % len(encs)]
    if op in ('change', 'file'):
        kw = {'encoding': enc} if (enc is not None or rng.random() < 0.5) else {}
        if v and rng.random() < 0.06:
            # a name that can stand as an option value but names no codec: the container is still accepted (N-choice),
            # only text that would inherit it is refused
            kw = {'encoding': rng.choice(['utf-9', 'no-such-codec', 'x.y/z', 'latin-99'])}
    elif op == 'preamble':
        kw = {'text': TEXTS[0] if simple or v == 0 else rng.choice(TEXTS)}
        if enc is not None:
            kw['encoding'] = enc
        if v:
            r = rng.random()
            if r < 0.6:
                kw['indent'] = rng.choice([0, 1, 2, 4, 7, None])
            kw['line_endings'] = rng.choice([None, None, 'unix', 'dos'])
            kw['mimetype'] = rng.choice([None, None, 'text/plain', 'text/markdown'])
    elif op == 'meta':
        kw = {'metadata': METAS[0] if simple or v == 0 else (rand_meta(rng) if rng.random() < 0.35 else rng.choice(METAS))}
        if enc is not None:
            kw['encoding'] = enc
        if v and rng.random() < 0.2:
            kw['meta_format'] = 'json'
    elif op == 'diff':
        kw = {'content': DIFFS[1] if simple or v == 0 else rng.choice(DIFFS)}
        if e:
            de = DIFF_ENCODINGS[(e + v) % len(DIFF_ENCODINGS)] if v else None
            if de:
                kw['encoding'] = de
        if v:
            kw['line_endings'] = rng.choice([None, None, 'unix', 'dos'])
            kw['diff_type'] = rng.choice([None, None, 'text', 'binary'])
    else:
        raise ValueError(op)
    if invalid:
        kw = dict(kw)
        kw.update(rng.choice(INVALID[op]))
    return op, kw

"""Direction A: get behaviours out of TLC (exhaustive or -simulate)."""
import json
import re

from harness import tlcrun
from harness.tlcrun import MachineryError

_BEH_RE = re.compile(r'<<\s*"BEH",\s*"((?:[^"\\]|\\.)*)"\s*>>', re.S)


def behaviours(module, constants, simulate=None, depth=None, seed=0, timeout=400, invariant='Emit',
               constraint=None, run=None, limit=None, cfg_extra=''):
    """Run Gen_* module; return list of behaviours (parsed JSON values).

    constants: dict name -> literal.  simulate: number of random walks
    (TLC -simulate num=N) of the given depth; otherwise exhaustive BFS.
    """
    cfg = 'SPECIFICATION Spec\nCHECK_DEADLOCK FALSE\nINVARIANT %s\n' % invariant
    if constraint:
        cfg += 'CONSTRAINT %s\n' % constraint
    cfg += 'CONSTANTS\n' + ''.join('  %s = %s\n' % kv for kv in constants.items()) + cfg_extra
    extra = []
    if simulate:
        extra = ['-simulate', 'num=%d' % simulate, '-depth', str(depth), '-seed', str(seed)]
    r = tlcrun.run_tlc(module, cfg, workers=1, timeout=timeout, extra=extra, xmx='4g')
    if r['rc'] not in (0,) or 'Error:' in r['out']:
        raise MachineryError('generator %s failed:\n%s' % (module, r['out'][-3000:]))
    out = []
    seen = set()
    for m in _BEH_RE.finditer(r['out']):
        s = m.group(1).replace('\\"', '"').replace('\\\\', '\\')
        if s in seen:
            continue
        seen.add(s)
        out.append(json.loads(s))
        if limit and len(out) >= limit:
            break
    if run is not None:
        run.states += r['distinct']
        run.transitions += r['states']
        run.cmds.append(r['cmd'])
        run.mc_runs.append({'module': module, 'note': 'behaviour generator'
                            + (' (simulate %d x depth %s, seed %d)' % (simulate, depth, seed) if simulate else ' (exhaustive)'),
                            'distinct_states': r['distinct'], 'states_generated': r['states'],
                            'behaviours': len(out), 'wall_s': round(r['wall'], 2)})
    return out

"""Entry point: python -m harness.run <ID> [--tier ...] [--replay PATH]

Exit 0: the property held on everything explored; 1: a VIOLATION line was printed;
2: the machinery itself failed (never to be read as a verdict) - that includes a harness
module that cannot be imported."""
import importlib
import sys
import traceback


def main():
    if len(sys.argv) < 2:
        sys.stderr.write('usage: check <ID> [--tier quick|thorough] [--replay PATH]\n')
        return 2
    pid = sys.argv[1].upper()
    try:
        from harness import core
        mod = importlib.import_module('harness.checks.%s' % pid.lower())
    except BaseException:       # noqa  (SyntaxError, ImportError, NameError at import time, ...)
        traceback.print_exc()
        print('MACHINERY FAILURE in %s (harness could not be loaded)' % pid)
        return 2
    return core.main(pid, mod.run, sys.argv[2:])


if __name__ == '__main__':
    sys.exit(main())

"""Entry point: python -m harness.run <ID> [--tier ...] [--replay PATH]"""
import importlib
import sys

from harness import core


def main():
    if len(sys.argv) < 2:
        sys.stderr.write('usage: check <ID> [--tier quick|thorough] [--replay PATH]\n')
        return 2
    pid = sys.argv[1].upper()
    try:
        mod = importlib.import_module('harness.checks.%s' % pid.lower())
    except ImportError as e:
        sys.stderr.write('no check for %s: %s\n' % (pid, e))
        return 2
    return core.main(pid, mod.run, sys.argv[2:])


if __name__ == '__main__':
    sys.exit(main())

"""Call-sequence generators for the writer-side checks (C01, C02, C04).

Behaviours come from TLC (Gen_Writer: exhaustive accepted paths, -simulate
walks); arguments are concretised from the adversarial pools.
"""
import itertools

from harness import gen, pools


def accepted_paths(run, rng, maxlen, nenc, nvar, content_enc='TRUE'):
    behs = gen.behaviours('Gen_Writer', {'MaxLen': maxlen, 'MaxRej': 0, 'NEnc': nenc, 'NVar': nvar, 'ContentEnc': content_enc}, run=run)
    return behs


def walks(run, rng, n, depth, maxrej, nenc=5, nvar=3, seed_off=0, content_enc='TRUE'):
    return gen.behaviours('Gen_Writer', {'MaxLen': depth, 'MaxRej': maxrej, 'NEnc': nenc, 'NVar': nvar, 'ContentEnc': content_enc},
                          simulate=n, depth=depth + 1, seed=run.seed + 11 + seed_off, run=run)


def conc(beh, rng, encs=None, rich=True, vary=False):
    """vary: ignore the behaviour's variant index and draw one per call (used when
    the behaviours were enumerated with NVar = 0 to keep the enumeration small)."""
    if encs is None:
        # the behaviour's encoding indices 1..NEnc stand for a fresh selection of codec names (all spellings of the
        # pool take part, not only the first few)
        encs = rng.sample(pools.ENCODINGS[1:], 5)
    return [pools.conc_call(c['op'], c['e'], (rng.choice([0, 1, 2, 3]) if vary else (c['v'] if rich else 0)),
                            rng, encs=encs) for c in beh]


def one_section_product(rng, quick):
    """A fixed minimal context around ONE content section, over the product of its arguments."""
    seqs = []
    encs = pools.ENCODINGS
    texts = pools.TEXTS
    if quick:
        texts = rng.sample(texts, 10)
        encs = [None] + rng.sample(encs[1:], 6)
    for t, e, ind, le, mime in itertools.product(texts, encs, [4, 0, 1, None, 9], [None, 'unix', 'dos'],
                                                 [None, 'text/markdown']):
        if quick and rng.random() > 0.12:
            continue
        kw = {'text': t, 'indent': ind}
        if e:
            kw['encoding'] = e
        if le:
            kw['line_endings'] = le
        if mime:
            kw['mimetype'] = mime
        seqs.append([('preamble', kw), ('change', {}), ('file', {}), ('meta', {'metadata': {'a': 1}})])
    for m, e in itertools.product(pools.METAS, encs):
        if quick and rng.random() > 0.4:
            continue
        kw = {'metadata': m}
        if e:
            kw['encoding'] = e
        seqs.append([('change', {}), ('meta', kw), ('file', {}), ('meta', dict(kw))])
    for d, e, le, dt in itertools.product(pools.DIFFS, [None, 'utf-16', 'latin-1', 'utf-32-be', 'utf-8', 'UTF-16LE'],
                                          [None, 'unix', 'dos'], [None, 'text', 'binary']):
        if quick and rng.random() > 0.15:
            continue
        kw = {'content': d}
        if e:
            kw['encoding'] = e
        if le:
            kw['line_endings'] = le
        if dt:
            kw['diff_type'] = dt
        seqs.append([('change', {'encoding': 'utf-16'}), ('file', {}), ('meta', {'metadata': {'a': 1}}), ('diff', kw)])
    return seqs


def scope_probes(beh, rng, encs):
    """Container-heavy behaviour -> calls where every content section is a probe:
    no own encoding (mostly), text containing non-ASCII so the effective encoding
    is visible in the bytes and in the decoded text."""
    calls = []
    for c in beh:
        op = c['op']
        if op in ('change', 'file'):
            e = None if c['e'] == 0 else encs[(c['e'] - 1) % len(encs)]
            calls.append((op, {'encoding': e} if e else {}))
        elif op == 'preamble':
            kw = {'text': rng.choice(['é probe\n', 'pré\r\nambule', 'ü', 'Ā?', 'plain'])}
            if c['v'] == 3:
                kw['encoding'] = rng.choice(encs)
            calls.append((op, kw))
        elif op == 'meta':
            kw = {'metadata': {'k': rng.choice(['é', 'ascii', 'ñ\n'])}}
            if c['v'] == 3:
                kw['encoding'] = rng.choice(encs)
            calls.append((op, kw))
        else:
            kw = {'content': rng.choice([b'x', b'a\nb', b'\xe9\n', b'no newline'])}
            if c['v'] == 3:
                kw['encoding'] = rng.choice(encs)
            calls.append((op, kw))
    return calls

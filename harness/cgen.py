"""Corruption catalogue for C08 (and C07's length perturbations): byte-, token- and
line-level damage to well-formed files, plus random byte strings."""
import re

VALUES = {
    b'length': [b'0', b'-1', b'-0', b'abc', b'1.5', b'99999999999999999999', b'1e3', b'007', b'1_0', b'x/y', b'2147483648'],
    b'indent': [b'x', b'1.5', b'-1', b'99999999999', b'4294967296', b'0', b'007', b'dos'],
    b'encoding': [b'utf.8', b'latin.1', b'UTF.16', b'utf-8.', b'nope', b'base64', b'rot13', b'undefined', b'idna', b'123', b'utf-99', b'hex', b'zlib',
                  b'utf-16', b'utf-32-be', b'ascii', b'cp037', b'unicode_escape', b'punycode', b'utf-7', b'-',
                  b'437', b'1252', b'8859', b'646', b'936', b'0', b'-1'],
    b'line_endings': [b'mac', b'DOS', b'1', b'unix', b'dos', b'x'],
    b'format': [b'yaml', b'JSON', b'1', b'xml'],
    b'version': [b'2.0', b'1', b'1.0.0', b'x', b'10', b'1.00', b'01.0', b'1.0_0', b'1.-0', b'1.', b'1.0e0', b'1.0/', b'v1.0'],
    b'type': [b'x', b'1', b'binary', b'text'],
    b'mimetype': [b'x', b'text/html', b'1'],
}
# option keys that happen to be attribute names of the object model
ATTR_LIKE = [b'meta', b'preamble', b'diff', b'files', b'changes', b'options', b'meta_format', b'meta_encoding',
             b'preamble_indent', b'preamble_encoding', b'preamble_mimetype', b'preamble_line_endings',
             b'diff_type', b'diff_encoding', b'diff_line_endings', b'section_id', b'subsections', b'content',
             b'meta_section', b'preamble_section', b'diff_section', b'section_name', b'default_options', b'parent_section',
             b'container_section_types', b'content_section_types', b'has_content']
_OPT_RE = re.compile(rb'([A-Za-z_-]+)=([^,\r\n]+)')


def corrupt(data, rng):
    """One random corruption of data."""
    if not data:
        return bytes([rng.randrange(256)])
    r = rng.random()
    if r < 0.40:
        ms = list(_OPT_RE.finditer(data))
        if ms:
            m = rng.choice(ms)
            vals = VALUES.get(m.group(1)) or [b'x', b'1', b'\xc3\xa9', b'a b', b'a+b', b'/x']
            if rng.random() < 0.15:
                vals = [b'\xc3\xa9', b'a b', b'a+b', b'"q"', b'', b'=', b'100%', b'%d', b'%(line_num)s', b'{}']
            return data[:m.start(2)] + rng.choice(vals) + data[m.end(2):]
    if r < 0.44:
        # rename or drop a whole option (e.g. the main header loses its encoding)
        ms = list(_OPT_RE.finditer(data))
        if ms:
            m = rng.choice(ms)
            if rng.random() < 0.5:
                return data[:m.start(1)] + rng.choice([b'x', b'coding', b'Length', b'len']) + data[m.end(1):]
            end = m.end()
            start = m.start()
            if data[end:end + 2] == b', ':
                end += 2
            elif data[start - 2:start] == b', ':
                start -= 2
            return data[:start] + data[end:]
    if r < 0.462:
        # no encoding anywhere: every text section is left to "8-bit binary" / JSON auto-detection
        d2 = re.sub(rb': encoding=[^,\r\n]+(?=\r?\n)', b':', data)
        return re.sub(rb'(, )?encoding=[^,\r\n]+(, )?', lambda m: b', ' if m.group(1) and m.group(2) else b'', d2)
    if r < 0.474:
        # pathological metadata: very deep nesting, or valid JSON that is not an object
        m = re.search(rb'^#\.*meta:[^\n]*length=(\d+)[^\n]*\n', data, re.M)
        if m:
            depth = rng.choice([700, 900])
            deep = rng.choice([b'[' * rng.choice([1500, 5000]) + b'\n',
                               b'{"k": ' + b'[' * depth + b']' * depth + b'}\n',        # VALID, but deep
                               b'{"k": ' + b'{"a": ' * depth + b'1' + b'}' * depth + b'}\n',
                               # valid JSON that is not an object
                               b'null\n', b' null \n', b'true\n', b'12\n', b'"text"\n', b'[]\n', b'[{}]\n', b'1.5\n'])
            return data[:m.start(1)] + str(len(deep)).encode() + data[m.end(1):m.end()] + deep + data[m.end() + int(m.group(1)):]
    if r < 0.478:
        # every integer option of ONE header becomes the same huge (or odd) number
        hs = [m for m in re.finditer(rb'^#[.a-z]+:.*=\d+.*$', data, re.M)]
        if hs:
            m = rng.choice(hs)
            big = rng.choice([b'4294967295', b'4294967296', b'2147483648', b'9223372036854775808', b'18446744073709551616',
                              b'1' + b'0' * 25, b'65536', b'0'])
            line = re.sub(rb'=(\d+)(?=,|\r|$)', b'=' + big, m.group(0))
            return data[:m.start()] + line + data[m.end():]
    if r < 0.485:
        # another section id on one header line: any of the 24 well-formed ids, or a near miss of a name
        hs = [m for m in re.finditer(rb'^#(\.*)([a-z]+):', data, re.M)]
        if hs:
            m = hs[0] if rng.random() < 0.4 else rng.choice(hs)
            name = rng.choice([b'diffx', b'preamble', b'meta', b'change', b'file', b'diff', b'dif', b'diffxx', b'Diffx', b'met',
                               b'files', b'preambl', b'chang', b'x', b''])
            return data[:m.start()] + b'#' + b'.' * rng.randrange(0, 5) + name + b':' + data[m.end():]
    if r < 0.50:
        i = rng.randrange(len(data))
        return data[:i] + bytes([rng.randrange(256)]) + data[i + 1:]
    if r < 0.60:
        return data[:rng.randrange(len(data))]
    if r < 0.68:
        i = rng.randrange(len(data))
        j = min(len(data), i + rng.randint(1, 20))
        return data[:i] + data[j:]
    if r < 0.76:
        # change the newline style of one line
        idx = [m.start() for m in re.finditer(rb'\n', data)]
        if idx:
            i = rng.choice(idx)
            if i > 0 and data[i - 1:i] == b'\r':
                return data[:i - 1] + data[i:]
            return data[:i] + b'\r' + data[i:]
    if r < 0.82:
        # duplicate or add an option on a header
        hs = [m for m in re.finditer(rb'^#[.a-z]+:.*$', data, re.M)]
        if hs:
            m = rng.choice(hs)
            if rng.random() < 0.25:
                extra = rng.choice(ATTR_LIKE) + b'=' + rng.choice([b'5', b'x', b'json', b'dos', b'1.0'])
            else:
                k = rng.choice(list(VALUES))
                extra = k + b'=' + rng.choice(VALUES[k])
            line = m.group(0).rstrip(b'\r')
            sep = b', ' if b'=' in line else b' '
            return data[:m.start()] + line + sep + extra + data[m.start() + len(line):]
    if r < 0.88:
        # non-ASCII / odd bytes inside a header
        hs = [m for m in re.finditer(rb'^#[.a-z]+:.*$', data, re.M)]
        if hs:
            m = rng.choice(hs)
            i = m.start() if rng.random() < 0.2 else rng.randrange(m.start(), m.end() + 1)     # also right in front of the '#'
            return data[:i] + rng.choice([b'\xc3\xa9', b'\xff', b'\x00', b' ', b'\t', b',', b'=', b'#', b'\xef\xbb\xbf', b'\xff\xfe', b'%', b'%d', b'%s', b'%(x)s', b'{0}', b'\\', b'"', b"'"]) + data[i:]
    if r < 0.94:
        # drop / duplicate a whole line
        lines = data.split(b'\n')
        i = rng.randrange(len(lines))
        if rng.random() < 0.5:
            del lines[i]
        else:
            lines.insert(i, lines[i])
        return b'\n'.join(lines)
    # strip the final newline(s)
    return data.rstrip(b'\r\n')


def random_bytes(rng):
    n = rng.choice([0, 1, 2, 5, 17, 60, 200])
    kind = rng.random()
    if kind < 0.3:
        return bytes(rng.randrange(256) for _ in range(n))
    if kind < 0.6:
        al = b'#.:=, \n\radiffxmetachangefilepreamblelength0123456789'
        return bytes(rng.choice(al) for _ in range(n))
    al = [b'#diffx:', b'#.meta:', b'#.change:', b'#..file:', b'#...diff:', b'#..preamble:', b' length=', b'3', b'\n',
          b'\r\n', b', ', b'version=1.0', b'encoding=utf-8', b'{}', b'x', b' ', b'\xff', b'indent=2', b'line_endings=dos']
    return b''.join(rng.choice(al) for _ in range(n // 3 + 1))

"""C03  Reader yields exactly what the specification says a well-formed file contains.

Model:   MC_Reader - stepwise Reader.tla = functional ReadFile, total, progressing, line
         numbers increasing, error ranges inside the input, over all token-level files.
Dir. A:  Gen_Sections legal structures -> files rendered in foreign styles (option order,
         dropped optional options, blank lines, CRLF headers, JSON styles, under-indented
         lines, 19 codec spellings) and every single defect of the catalogue.
Dir. B:  Trace_Reader (exact): records, acceptance and error-line range = ReadFile.
"""
import random

from harness import fgen, rdriver
from harness.abstraction import Catalog
from harness.checks import _rcommon


def describe(c):
    return bytes(c['file'])[:160].decode('latin-1')


def run(run, replay=None):
    rng = random.Random(run.seed)
    quick = run.tier == 'quick'
    _rcommon.mc_reader(run, ['Total', 'ErrRange', 'LinesUp', 'Stepwise', 'PosOK'])
    cat = Catalog()
    _rcommon.note_pools(cat)
    paths = _rcommon.legal_paths(run, 7 if quick else 9)
    cases = []
    n = 0
    for data in fgen.probe_files():          # edge cases first (state carried between parses)
        cases.append(rdriver.case(n, 'exact', data, cat))
        run.count(('probe', data), nontrivial=True)
        n += 1
    reps = 2 if quick else 12
    for ids in paths:
        for _ in range(reps):
            data, info = fgen.build_file(ids, rng, main_enc=rng.choice(['utf-8', 'utf-8', 'utf-16', 'latin-1']))
            cases.append(rdriver.case(n, 'exact', data, cat))
            run.count((tuple(ids), data[:60]), nontrivial=len(ids) >= 3)
            n += 1
    sample_paths = [p for p in paths if len(p) >= 3]
    diff_paths = [p for p in sample_paths if '...diff' in p]
    for d in fgen.DEFECTS:
        for _ in range(25 if quick else 300):
            ids = rng.choice(diff_paths if _ % 3 == 0 and diff_paths else sample_paths)
            # the defect on the first section it applies to, or (two of three times) on a section picked at random:
            # every kind of section gets every defect that can apply to it
            order = list(range(len(ids)))
            rng.shuffle(order)                 # uniformly among the sections the defect applies to
            for at in order + [None]:
                data, info = fgen.build_file(ids, rng, defect=d, defect_at=at,
                                             main_enc=rng.choice(['utf-8', 'utf-16', 'latin-1']))
                if info['defect_applied']:
                    break
            if not info['defect_applied']:
                continue
            cases.append(rdriver.case(n, 'exact', data, cat))
            run.count((d, tuple(ids), data[:60]), nontrivial=True)
            if len(run.samples) < 4 and rng.random() < 0.02:
                run.sample({'defect': d, 'ids': ids, 'file_head': data[:120].decode('latin-1'),
                            'impl_end': cases[-1]['end'], 'impl_line': cases[-1]['line']})
            n += 1
    # every file of MC_Reader's explored space (all token sequences) goes to the real reader too
    from harness import gen
    tokfiles = gen.behaviours('MC_Reader', {'MaxTok': 3 if quick else 4, 'RawLen': 0}, invariant='EmitFiles', run=run,
                              cfg_extra='CONSTANT Tables <- NoTables\n', timeout=1200)
    for b in tokfiles:
        data = bytes(b['f'])
        cases.append(rdriver.case(n, 'exact', data, cat))
        run.count(('tokens', data), nontrivial=data.count(b'#') >= 2)
        n += 1
    run.notes['token_files_from_MC_Reader'] = len(tokfiles)
    # the specification's own example files
    import glob
    import os
    for fn in sorted(glob.glob(os.path.join(os.environ.get('VERIF_REPO', '/repo'), 'docs/spec/example-diffs/*.diff'))):
        data = open(fn, 'rb').read()
        cases.append(rdriver.case(n, 'exact', data, cat))
        run.count(('example', fn), nontrivial=True)
        n += 1
    run.sample({'ids': paths[-1], 'file_head': bytes(cases[len(paths)]['file'][:200]).decode('latin-1')})
    can = run.tolerant(lambda: _rcommon.reader_canaries(cases, rng))
    # files whose declared length exceeds the data present are C07's subject (known finding F9), not C03's
    v = run.judge('Trace_Reader', cases + can, cat.tables(), canary_ids=[c['id'] for c in can],
                  describe=describe, out_of_scope_devs=('D_ShortReadAccepted',))
    acc = sum(1 for c in cases if v[c['id']] [2] == 'accepted')
    rej = sum(1 for c in cases if v[c['id']][2] == 'rejected')
    run.notes['spec_accepted_files'] = acc
    run.notes['spec_rejected_files'] = rej
    run.assumptions += ['floats, integers beyond 9 digits and duplicate keys in metadata are outside the model',
                        'codec names are resolved through Python\'s registry (canonical name)']
    return run.finish(
        rule='Gen_Sections legal paths x random foreign styles; every defect of the catalogue on random '
             'structures; docs/spec/example-diffs; distinct = (ids, first 60 bytes); non-trivial = >= 3 sections '
             'or a defect',
        explanation='ReadFile (Reader.tla) decides records, acceptance and the allowed error-line range of '
                    'every file; TLC compares with what DiffXReader did')

"""C06  Parse then re-serialise: byte-identical on canonical files, idempotent on others.

Model:   MC_Dom Canonical: DomSerialize(DomParse(DomSerialize(t))) = DomSerialize(t) for all
         small trees (the canonical form is a fixed point of load + save).
Dir. A:  canonical files (real writer over Gen_Writer walks, all codecs/options of C01) and
         well-formed foreign files (Gen_Sections structures in foreign styles, incl. unknown
         options and line_endings on metadata).
Dir. B:  Trace_Dom (chk.adopt - metamorphic, the loaded tree is adopted from the observation):
         canonical: to_bytes(from_bytes(b)) = b.  foreign: re-serialising succeeds (b1), the
         tree loaded from b1 carries the same section contents, and to_bytes of it = b1.
         A failing re-serialisation is accepted only as the named deviation
         D_DomOptionsNotWritable (known finding F16), which TLC recognises from the tree.
"""
import random

from harness import domdriver, fgen, pools, rdriver, wgen
from harness.abstraction import Catalog
from harness.checks import _dcommon, _rcommon
from harness.wdriver import run_writer

CHK = {'bytes': False, 'adopt': True, 'c06': True}


def describe(tr):
    return {'events': [(e['k'], e['status']) for e in tr['ev']], 'input': bytes(tr['ev'][0]['bytes'])[:300].decode('latin-1')}


def run(run, replay=None):
    rng = random.Random(run.seed)
    quick = run.tier == 'quick'
    _dcommon.mc_dom(run, ['Canonical'])
    cat = Catalog()
    _rcommon.note_pools(cat)
    traces = []
    n = 0
    for data in fgen.probe_files():          # edge cases first (state carried between parses)
        h = domdriver.History(cat)
        e = h.parse(data)
        if e['status'] == 'ok':
            e1 = h.ser(1)
            if e1['status'] == 'ok':
                h.parse(bytes(e1['bytes']), same_contents_as=1)
        traces.append(h.trace(n, CHK))
        n += 1
    ws = wgen.walks(run, rng, 350 if quick else 4000, 12 if quick else 24, 0)
    for b in ws:
        calls = wgen.conc(b, rng)
        for _op, kw in calls:       # the quantifier of C06 (as C01) has indent >= 0
            if 'indent' in kw and kw['indent'] is None:
                kw['indent'] = 0
        _tr, data, _i = run_writer(0, rng.choice(pools.CTOR_ENCODINGS), calls, cat,
                                   {'order': False, 'bytes': False, 'read': False, 'scope': False})
        if rdriver.read_bytes(data)[1] != 'done':
            continue
        h = domdriver.History(cat)
        e = h.parse(data)
        if e['status'] == 'ok':
            h.ser(1, same_as=data)
        traces.append(h.trace(n, CHK))
        run.count(('canonical', data), nontrivial=len(data) > 120)
        n += 1
    run.sample({'kind': 'canonical', 'bytes': len(data), 'head': data[:100].decode('latin-1')})
    paths = [p for p in _rcommon.legal_paths(run, 8) if len(p) >= 2]
    nf = 0
    while nf < (350 if quick else 4000):
        ids = rng.choice(paths)
        unknown = None
        r = rng.random()
        if r < 0.12:
            unknown = [(rng.randrange(len(ids)), 0, rng.choice(['x-custom', 'generator', 'preamble', 'meta', 'diff', 'files', 'changes', 'parent_section',
                                                                     'meta_section', 'preamble_section', 'content', 'options']),
                        rng.choice(['1', 'abc']))]
        data, info = fgen.build_file(ids, rng, unknown=unknown, main_enc=rng.choice(['utf-8', 'utf-16', 'latin-1']))
        res = rdriver.read_bytes(data)
        if res[1] != 'done':
            continue
        nf += 1
        h = domdriver.History(cat)
        e = h.parse(data)
        if e['status'] == 'ok':             # "that the object model accepts"
            e1 = h.ser(1)
            if e1['status'] == 'ok':
                b1 = bytes(e1['bytes'])
                e2 = h.parse(b1, same_contents_as=1)
                if e2['status'] == 'ok':
                    h.ser(2, same_as=b1)
            traces.append(h.trace(n, CHK))
            run.count(('foreign', data), nontrivial=True)
            n += 1
    run.sample({'kind': 'foreign', 'bytes': len(data), 'head': data[:160].decode('latin-1')})
    can = run.tolerant(lambda: _dcommon.dom_canaries(traces, rng))
    can = [c for c in can if True]
    v = run.judge('Trace_Dom', traces + can, cat.tables(), canary_ids=[c['id'] for c in can], describe=describe)
    run.notes['object_model_rejected_input'] = sum(1 for t in traces if t['ev'][0]['status'] != 'ok')
    return run.finish(
        rule='canonical files from the real writer (random walks of Gen_Writer) and well-formed foreign files; '
             'distinct = file bytes; non-trivial = foreign, or canonical > 120 bytes',
        explanation='MC_Dom Canonical (fixed point) on all small trees; for every real file TLC checks the load/save '
                    'relations between observations and recognises the one named deviation from the adopted tree')

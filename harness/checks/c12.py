"""C12  Unknown header options are carried through and change nothing else.

Model:   MC_Reader `Unknown`: for every token-level file, every header position and both
         insertion positions, ReadFile(InsertOpt(f)) = ReadFile(f) + that option.
Dir. A:  well-formed foreign files (Gen_Sections structures, random styles) x 1-3 unknown
         options (grammar extremes, keys that are prefixes/suffixes/case variants of known
         ones, integer-looking values) x every insertion position.
Dir. B:  Trace_Reader (unknown): records of the modified file = records of the original
         file with Opt(k, v) (integers converted, Header.tla) added to the affected records.
"""
import copy
import random

from harness import fgen, rdriver
from harness.abstraction import Catalog
from harness.checks import _rcommon

KEYS = ['keep_bytes', 'preserve_trailing_newline', 'self', 'fp', 'newline', 'content', 'x', 'len', 'lengths', 'xlength', 'Encoding', 'ENCODING', 'length-', 'a_b-c9', 'Z', 'q' * 60,
        'line-endings', 'indent_', 'formatx', 'version2', 'mimetypes', 'typ', 'e', 'n0']
VALS = ['1', '0', '007', '-5', '-0', 'abc', 'a/b/c', '../x', 'v1.2.3', '-', '_', '.', '/', 'utf-8', 'dos',
        'json', 'x' * 60, '12a', 'a12', '1.0', '1-2', '99999999', '2147483648', '123456789012',
        'true', 'false', 'null', 'True', 'None', '0x10', '1e5', '00',
        '9223372036854775807', '9223372036854775808', '18446744073709551616', '1' + '0' * 40, '-9223372036854775809']


def describe(c):
    return {'ins': [(x['sec'], bytes(x['k']).decode(), bytes(x['v']).decode()) for x in c['ins']],
            'file': bytes(c['file'])[:200].decode('latin-1')}


def run(run, replay=None):
    rng = random.Random(run.seed)
    quick = run.tier == 'quick'
    _rcommon.mc_reader(run, ['Unknown', 'Total'], props=(), quick=(3, 0), thorough=(5, 0))
    cat = Catalog()
    _rcommon.note_pools(cat)
    paths = [p for p in _rcommon.legal_paths(run, 7 if quick else 8) if len(p) >= 2]
    cases = []
    n = 0
    per = 2 if quick else 20
    for ids in paths:
        for rep in range(per):
            seed = rng.randrange(1 << 30)
            base_data, _ = fgen.build_file(ids, random.Random(seed))
            base = rdriver.read_bytes(base_data)
            if base[1] != 'done':
                continue        # only well-formed files are in the quantifier
            nins = rng.choice([1, 1, 2, 3])
            ks = rng.sample(KEYS, nins)
            ins = [(rng.randrange(len(ids)), rng.randrange(0, 6), k, rng.choice(VALS)) for k in ks]
            if rep % 2 == 1 and len(ids) >= 2:
                # the SAME unknown key on several headers of one file, with values of different kinds in either order
                k = rng.choice(KEYS)
                secs = sorted(rng.sample(range(len(ids)), min(len(ids), rng.choice([2, 2, 3]))))
                kinds = rng.choice([['abc', '12', '7'], ['12', 'abc', '5'], ['1.0', '7', 'x'], ['007', 'v1', '5'], ['-', '0', '-5']])
                ins = [(si, rng.randrange(0, 6), k, kinds[j]) for j, si in enumerate(secs)]
            data, _ = fgen.build_file(ids, random.Random(seed), unknown=ins)
            c = rdriver.case(n, 'unknown', data, cat, base=base[0], baseend=base[1],
                             ins=[{'sec': si + 1, 'k': list(k.encode()), 'v': list(v.encode())} for si, _, k, v in ins],
                             ship_file=True)
            cases.append(c)
            run.count((tuple(ids), tuple(ins)), nontrivial=True)
            if n % 200 == 0:
                run.sample({'ids': ids, 'inserted': [(si, pos, k[:20], v[:20]) for si, pos, k, v in ins]})
            n += 1
    for ids in [p for p in paths if len(p) >= 3][:2]:
        seed = rng.randrange(1 << 30)
        base_data, _x = fgen.build_file(ids, random.Random(seed))
        base = rdriver.read_bytes(base_data)
        if base[1] == 'done':
            si = rng.randrange(len(ids))
            ins = [(si, 0, 'k%03d' % j, rng.choice(['v', '7', 'a/b'])) for j in range(900)]       # one header line of ~8 KiB
            data, _x = fgen.build_file(ids, random.Random(seed), unknown=ins)
            cases.append(rdriver.case(n, 'unknown', data, cat, base=base[0], baseend=base[1],
                                      ins=[{'sec': s_ + 1, 'k': list(k.encode()), 'v': list(v.encode())} for s_, _p, k, v in ins], ship_file=True))
            n += 1
    def _mk_canaries():
        can = []
        pool = [c for c in cases if c['recs'] and c['end'] == c['baseend'] and len(c['recs']) == len(c['base'])
                and all(x['sec'] <= len(c['recs']) for x in c['ins'])]
        for k, c in enumerate(rng.sample(pool, min(8, len(pool)))):
            z = copy.deepcopy(c)
            z['canary_of'] = z['id']
            z['id'] = 'canary-%d' % k
            if k % 2:
                sec = z['ins'][0]['sec'] - 1
                z['recs'][sec]['opts'] = [o for o in z['recs'][sec]['opts'] if o['k'] != z['ins'][0]['k']]
            else:
                z['ins'][0]['v'] = z['ins'][0]['v'] + [120]
            can.append(z)
        return can
    can = run.tolerant(_mk_canaries)
    run.judge('Trace_Reader', cases + can, cat.tables(), canary_ids=[c['id'] for c in can],
              describe=describe)
    return run.finish(
        rule='well-formed generated files x 1-3 unknown options from grammar extremes x random insertion '
             'positions; distinct = (ids, inserted options); every case is non-trivial',
        explanation='MC_Reader Unknown (metamorphic theorem on Reader.tla, small scope); TLC checks the same '
                    'relation between the two real executions (original / modified file)')

"""C20  Syntax highlighter is lossless and tags every section header.

Dir. A:  Gen_Writer accepted paths and walks restricted to UTF-8 and pools without "#.";
         random and DiffX-shaped strings.
Dir. B:  Trace_Lex: Flatten(token values) = input for every string; for writer files no Error
         token and the header-shaped Name.Tag tokens = "#" id ":" for exactly the records
         Writer.tla promises for the calls, in order.
Role of TLA+: the header half is decided against the Writer specification; the losslessness
half is a one-line predicate evaluated by TLC on the recorded token list (DESIGN.md 6 C20).
"""
import copy
import random

from harness import cgen, pools, wgen
from harness.abstraction import Catalog, NOENC, cps
from harness.wdriver import run_writer

TEXTS = [t for t in pools.TEXTS if '#.' not in t and '\r' not in t and '\x00' not in t and '\x0b' not in t and '\x85' not in t] + ['plain\n', 'two\nlines\n', 'a\n...\nb\n', '...\nfirst line is an elision\n', '# heading\ntext\n', '\u3042' * 250 + '\n', '\u30c6\u30b9\u30c8' * 11 + '\n', '\u00e9' * 62 + '\n', '\u4e2d' * 31,
         # a '#', some characters, a section name and a colon - but never '#.' : ordinary content
         '# meta: not a header\n', 'see # change: below\nmore\n', '#xmeta: y\n#  file: z\n', 'a #1diff: b\n', '#-preamble:\n',
         '# diffx: 1\n', 'text #\tmeta:\n']
METAS = [m for m in pools.METAS if '#.' not in repr(m)]
DIFFS = [b'x\n...\ny\n', b'# HG changeset patch\n--- a\n+++ b\n', b'--- a\n+++ b\n@@ -1 +1 @@\n-a\n+b\n', b'x\n', b'Binary files differ\n', b'@@ -1,2 +1,2 @@\n a\n-b\n+c\n', b'delta 12\n', b'delta 12\r\nzABC\r\n', b'literal 5\r\nzcmV\r\n',
         b'--- a\n+++ b\n@@ -1 +1 @@\n-# meta: old\n+# change: new\n', b'# a diff: see below\n--- a\n+++ b\n']


def lex(text):
    from pydiffx.integrations.pygments_lexer import DiffXLexer
    exc = ''
    toks = []
    try:
        toks = [(str(t), v) for _i, t, v in DiffXLexer().get_tokens_unprocessed(text)]
    except Exception as e:      # noqa
        exc = type(e).__name__
    return toks, exc


def run(run, replay=None):
    rng = random.Random(run.seed)
    quick = run.tier == 'quick'
    cat = Catalog()
    cases = []
    cid = 0
    behs = wgen.accepted_paths(run, rng, 5 if quick else 7, 0, 0)
    behs += wgen.walks(run, rng, 150 if quick else 4000, 10 if quick else 20, 0, nenc=0)
    if quick and len(behs) > 700:
        behs = rng.sample(behs, 700)
    for b in behs:
        calls = []
        for c in b:
            op = c['op']
            if op in ('change', 'file'):
                calls.append((op, {}))
            elif op == 'preamble':
                calls.append((op, {'text': rng.choice(TEXTS), 'indent': rng.choice([0, 2, 4]),
                                   'mimetype': rng.choice([None, 'text/markdown'])}))
            elif op == 'meta':
                calls.append((op, {'metadata': rng.choice(METAS)}))
            else:
                calls.append((op, {'content': rng.choice(DIFFS), 'diff_type': rng.choice([None, 'text', 'binary'])}))
        tr, data, info = run_writer(0, 'utf-8', calls, cat, {'order': False, 'bytes': False, 'read': False, 'scope': False})
        text = data.decode('utf-8')
        toks, exc = lex(text)
        cases.append({'id': cid, 'kind': 'file', 'enc': tr['ev'][0]['enc'],
                      'calls': [e['c'] for e in tr['ev'] if e['k'] == 'call'],
                      'input': cps(text), 'tokens': [{'t': t, 'v': cps(v)} for t, v in toks], 'exc': exc})
        run.count(text, nontrivial=len(calls) >= 3)
        cid += 1
    run.sample({'kind': 'file', 'head': text[:160], 'tokens': [(t, v[:20]) for t, v in toks[:8]]})
    # header lines whose options are not in the writer's canonical form (losslessness holds for ALL strings)
    for text in ('#diffx: encoding=utf-8,version=1.0\n#.change:\n', '#diffx: encoding=utf-8, version=1.0\n#.change: \n#..file: x\n',
                 '#diffx: version=1.0\n#.change:\n#..file:\n#...diff: length=\nabc\n', '#.meta: a=b,  c=d ,e\n{}\n',
                 '#..file: =\n', '#diffx:  version=1.0\n', '#.change: a=1,\n', '#.preamble: length=3;indent=2\nabc\n'):
        toks, exc = lex(text)
        cases.append({'id': cid, 'kind': 'text', 'enc': NOENC, 'calls': [], 'input': cps(text),
                      'tokens': [{'t': t, 'v': cps(v)} for t, v in toks], 'exc': exc})
        run.count(text, nontrivial=True)
        cid += 1
    for n in range(600 if quick else 20000):
        r = rng.random()
        if r < 0.4:
            text = cgen.random_bytes(rng).decode('latin-1')
        elif r < 0.7:
            text = cgen.corrupt(rng.choice(cases)['input'] and bytes(x for x in rng.choice(cases)['input'] if x < 256), rng).decode('latin-1')
        else:
            text = ''.join(rng.choice(['#', '.', 'diffx:', 'meta:', 'change:', '\n', ' ', 'length=3', '{}', '...', 'é', '@@ -1 +1 @@', '+x', '-y', '\t', '#..file:', '#...diff:', 'delta 5'])
                           for _ in range(rng.randint(0, 30)))
        toks, exc = lex(text)
        cases.append({'id': cid, 'kind': 'text', 'enc': NOENC, 'calls': [], 'input': cps(text),
                      'tokens': [{'t': t, 'v': cps(v)} for t, v in toks], 'exc': exc})
        run.count(text, nontrivial=len(text) > 3)
        cid += 1
    run.sample({'kind': 'text', 'input': text[:80]})
    def _mk_canaries():
        can = []
        pool = [c for c in cases if c['kind'] == 'file' and len(c['tokens']) > 4]
        for k, c in enumerate(rng.sample(pool, 8)):
            z = copy.deepcopy(c)
            z['canary_of'] = z['id']
            z['id'] = 'canary-%d' % k
            if k % 2:
                z['tokens'].pop(rng.randrange(len(z['tokens'])))
            else:
                tg = [t for t in z['tokens'] if t['t'] == 'Token.Name.Tag']
                tg[0]['t'] = 'Token.Text'
            can.append(z)
        return can
    can = run.tolerant(_mk_canaries)
    run.judge('Trace_Lex', cases + can, cat.tables(), canary_ids=[c['id'] for c in can],
              describe=lambda c: {'kind': c['kind'], 'input': ''.join(chr(x) for x in c['input'])[:300]})
    run.assumptions += ['pygments\' JsonLexer and DiffLexer are black boxes']
    return run.finish(
        rule='writer-produced UTF-8 files with benign content (Gen_Writer paths and walks) and random / DiffX-shaped / '
             'corrupted strings; distinct = input text',
        explanation='losslessness evaluated by TLC on every token list; header tokens compared with the records '
                    'Writer.tla promises for the same calls')

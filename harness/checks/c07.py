"""C07  Length frames content: truncated/damaged files never yield altered sections.

Model:   MC_Writer Framed: for EVERY cut of EVERY reachable output of Writer.tla the STRICT
         Reader.tla yields a prefix of the intact records followed by done / error.
         FramedAB (as-built reader, D_ShortReadAccepted) must FAIL while finding F9 is open.
Enum.:   canonical files (real writer over Gen_Writer walks) and foreign files x EVERY
         truncation point 0..len(file); every content section's length perturbed to exceed
         the data present, to negative and to non-numeric values.
Dir. B:  Trace_Reader (cut): records yielded for the damaged file are a prefix of the records
         of the intact file (an equality between two observations) and the end is done /
         parse error; a differing record is accepted only if TLC derives exactly it from
         the named as-built deviation D_ShortReadAccepted (known finding F9).
"""
import copy
import random
import re

from harness import fgen, pools, rdriver, wgen
from harness.abstraction import Catalog
from harness.checks import _rcommon, _wcommon
from harness.wdriver import run_writer

_LEN_RE = re.compile(rb'length=(\d+)')


def describe(c):
    f = bytes(c['file'])
    return 'cut file of %d bytes ending %r; %d records, end=%s' % (len(f), f[-40:], len(c['recs']), c['end'])


def perturbations(data, rng):
    """(label, damaged bytes) for every content HEADER of data.  Headers are located structurally
    (header line, then `length` bytes), because content may itself contain text like "length=3"."""
    out = []
    pos = 0
    while pos < len(data):
        k = data.find(b'\n', pos)
        if k < 0:
            break
        line = data[pos:k]
        if not line.strip():
            pos = k + 1
            continue
        if not line.startswith(b'#'):
            break                       # not a structure this walker understands: stop perturbing
        m = _LEN_RE.search(line)
        if not m:
            pos = k + 1
            continue
        a, b = pos + m.start(1), pos + m.end(1)
        remaining = len(data) - (k + 1)
        vals = [str(remaining + d).encode() for d in (1, 2, 3, 1000)]
        vals += [b'-1', b'-' + m.group(1), b'abc', b'1.5', b'1e3', b'0x10', b'9' * 25, b'+5']
        for v in vals:
            out.append((v.decode(), data[:a] + v + data[b:]))
        pos = k + 1 + int(m.group(1))
    return out


def run(run, replay=None):
    rng = random.Random(run.seed)
    quick = run.tier == 'quick'
    _wcommon.mc_writer(run, ['Framed'], quick_depths=((2, 'TRUE'),), thorough_depths=((3, 'TRUE'),))
    if any(k.get('deviation') == 'D_ShortReadAccepted' and k.get('status') == 'open' for k in run.known):
        run.mc('MC_Writer', _wcommon.MCW_CFG % (1, 'FALSE', 'INVARIANT FramedAB\n'), expect='violation',
               note='as-built reader (D_ShortReadAccepted): must produce the counterexample of finding F9')
    cat = Catalog()
    _rcommon.note_pools(cat)
    bases = []
    ws = wgen.walks(run, rng, 14 if quick else 120, 8, 0, nenc=4)
    for b in ws:
        _tr, data, _i = run_writer(0, rng.choice(['utf-8', 'utf-16', 'latin-1', 'utf-32-be']), wgen.conc(b, rng),
                                   Catalog(), {'order': False, 'bytes': False, 'read': False, 'scope': False})
        bases.append(('canonical', data))
    paths = [p for p in _rcommon.legal_paths(run, 7) if len(p) >= 4]
    for _ in range(10 if quick else 100):
        data, _i = fgen.build_file(rng.choice(paths), rng)
        bases.append(('foreign', data))
    cases = []
    cid = 0
    ncuts = 0
    for origin, data in bases:
        if len(data) > (700 if quick else 1500):
            continue
        intact = rdriver.read_bytes(data)
        if intact[1] != 'done':
            continue                # only well-formed files are in the quantifier
        for k in range(len(data) + 1):
            cut = data[:k]
            res = rdriver.read_bytes(cut)
            ok = res[0] == intact[0][:len(res[0])]
            c = rdriver.case(cid, 'cut', cut, cat, result=res, prefixok=ok, ship_recs=not ok)
            if ok:
                c['cmap'] = []
            cases.append(c)
            cid += 1
            ncuts += 1
            run.count((data[:40], k), nontrivial=0 < k < len(data))
        for label, dmg in perturbations(data, rng):
            res = rdriver.read_bytes(dmg)
            ok = res[0] == intact[0][:len(res[0])]
            c = rdriver.case(cid, 'cut', dmg, cat, result=res, prefixok=ok, ship_recs=not ok)
            if ok:
                c['cmap'] = []
            cases.append(c)
            cid += 1
            run.count((data[:40], 'len', label, dmg[:len(dmg) // 2]), nontrivial=True)
        if len(run.samples) < 4:
            run.sample({'origin': origin, 'file_bytes': len(data), 'cuts': len(data) + 1,
                        'intact_records': len(intact[0]), 'head': data[:80].decode('latin-1')})
    def _mk_canaries():
        can = []
        pool = [c for c in cases if c['prefixok']]
        for k, c in enumerate(rng.sample(pool, min(8, len(pool)))):
            z = copy.deepcopy(c)
            z['canary_of'] = z['id']
            z['id'] = 'canary-%d' % k
            if k % 2:
                z['end'] = 'other:AssertionError'
            else:
                z['prefixok'] = False
                z['recs'] = [{'id': 'diffx', 'level': 0, 'type': 'diffx', 'line': 0, 'opts': [], 'kind': 'none',
                              'text': [], 'raw': [], 'meta': {'t': 'null', 's': [], 'n': 0, 'neg': False, 'items': []}}]
            can.append(z)
        return can
    can = run.tolerant(_mk_canaries)
    run.judge('Trace_Reader', cases + can, cat.tables(), canary_ids=[c['id'] for c in can], describe=describe)
    run.notes['truncation_points'] = ncuts
    run.notes['base_files'] = len(bases)
    return run.finish(
        rule='well-formed canonical (real writer) and foreign files x EVERY truncation point 0..len, plus every '
             'content length set beyond the data present / negative / non-numeric; distinct = (file, cut) or '
             '(file, perturbation); non-trivial = a proper cut or a perturbation',
        explanation='MC_Writer Framed on the STRICT spec (all cuts of all reachable outputs, small scope); each real '
                    'run judged by TLC: prefix of the intact records and a normal end, else exactly the as-built '
                    'short-read deviation',
        extra={'exhaustive': False})

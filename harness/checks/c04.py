"""C04  Encoding inheritance follows nesting: nearest ancestor wins, siblings never leak.

Model:   Scope.tla explored to fix-point (ALL container histories of any length):
         WEff / REff (writer-shaped and reader-shaped stacks = nearest declared ancestor),
         NoLeak (action property), WDepth/RDepth.
Dir. A:  Gen_Writer behaviours (all accepted paths to the bound, container-heavy random
         walks to depth 40) with encodings chosen independently on every container; every
         content section is a probe containing non-ASCII text, mostly without own encoding.
Dir. B:  writer: Trace_WriteRead (scope clauses) - the content bytes of every accepted call
         decode, in the NEAREST DECLARED encoding per Writer.tla, to what was passed; diffs
         never carry an inherited encoding.  reader: the same files and independently
         rendered foreign files through Trace_Reader (scope mode): content fields = ReadFile.
         The two sides are judged separately, so two equal mistakes cannot cancel.
"""
import copy
import random

from harness import fgen, rdriver, wgen
from harness.abstraction import Catalog
from harness.canary import writer_canaries
from harness.checks import _rcommon
from harness.wdriver import run_writer

SCOPE_CFG = '''SPECIFICATION Spec
CONSTANTS Enc = {e1, e2}  None = None  PopOne = FALSE
INVARIANT WEff
INVARIANT REff
INVARIANT WDepth
INVARIANT RDepth
INVARIANT TypeOK
PROPERTY NoLeak
CHECK_DEADLOCK FALSE
'''
CHK = {'order': False, 'bytes': False, 'read': False, 'scope': True}
ENCS = ['utf-16', 'latin-1', 'utf-8', 'utf-32-be', 'cp037', 'utf-16-be', 'cp1252', 'UTF-8', 'utf-8-sig']


def run(run, replay=None):
    rng = random.Random(run.seed)
    quick = run.tier == 'quick'
    run.mc('Scope', SCOPE_CFG, note='encoding scope machine, complete graph (STRICT), all histories')
    # model-level canary: with the (repaired) single-pop deviation switched on, REff must fail
    run.mc('Scope', 'SPECIFICATION Spec\nCONSTANTS Enc = {e1, e2}  None = None  PopOne = TRUE\nINVARIANT REff\n'
                    'CONSTRAINT Bound\nCHECK_DEADLOCK FALSE\n', expect='violation', workers=1,
           note='model-level canary: D_ReaderPopOne (finding F1, fixed) must violate REff - the invariant is not vacuous')
    cat = Catalog()
    _rcommon.note_pools(cat)
    behs = wgen.accepted_paths(run, rng, 6 if quick else 8, 2, 0, content_enc='FALSE')
    if len(behs) > (1200 if quick else 30000):
        behs = rng.sample(behs, 1200 if quick else 30000)
    nex = len(behs)
    behs += wgen.walks(run, rng, 300 if quick else 10000, 16 if quick else 40, 0, nenc=3, nvar=3)
    traces = []
    rcases = []
    for n, b in enumerate(behs):
        if 'v' in b[0] and n < nex:
            b = [dict(x, v=rng.choice([0, 0, 0, 3])) for x in b]
        calls = wgen.scope_probes(b, rng, ENCS[:3] if n % 2 else ENCS)
        tr, data, info = run_writer(n, rng.choice(['utf-8', 'utf-16', 'latin-1']), calls, cat, CHK, read=True)
        traces.append(tr)
        nest = tuple((op, kw.get('encoding')) for op, kw in calls if op in ('change', 'file'))
        run.count(nest + (len(calls),), nontrivial=sum(1 for x in nest if x[1]) >= 1 and len(nest) >= 3)
        if n % 3 == 0:
            rcases.append(rdriver.case('r%d' % n, 'scope', data, cat))
    run.sample({'containers': [(op, kw.get('encoding')) for op, kw in calls if op in ('change', 'file')],
                'probes': [(op, kw.get('encoding')) for op, kw in calls if op not in ('change', 'file')]})
    # independently rendered foreign files: reader side only
    paths = [p for p in _rcommon.legal_paths(run, 8) if sum(1 for i in p if i in ('.change', '..file')) >= 3]
    for n in range(300 if quick else 8000):
        data, _i = fgen.build_file(rng.choice(paths), rng, encs=ENCS, main_enc=rng.choice(['utf-8', 'utf-16', 'latin-1']))
        rcases.append(rdriver.case('f%d' % n, 'scope', data, cat))
        run.count(('foreign', data[:80]), nontrivial=True)
    can = run.tolerant(lambda: writer_canaries(traces, rng, want=('read',), count=6))
    for c in can:
        c['chk'] = dict(CHK)
    # canaries for the scope clauses: re-encode nothing, just claim another encoding was declared
    k = 0
    for tr in traces:
        if k >= 6:
            break
        idx = [j for j, e in enumerate(tr['ev']) if e['k'] == 'call' and e['accepted'] and e['c']['op'] in ('preamble', 'meta')
               and not e['c']['enc']['given'] and any(x > 127 for x in e['appended'])]
        if not idx:
            continue
        z = copy.deepcopy(tr)
        z['canary_of'] = z['id']
        z['id'] = 'canary-s%d' % k
        # pretend the main section had declared another encoding
        other = cat.enc('utf-32-be' if bytes(z['ev'][0]['enc']['name']) != b'utf-32-be' else 'utf-8')
        first_container = [j for j, e in enumerate(z['ev']) if e['k'] == 'call' and e['c']['op'] in ('change', 'file')]
        if first_container and first_container[0] < idx[0]:
            continue
        z['ev'][0]['enc'] = other
        can.append(z)
        k += 1
    can = [c for c in can if c['id'].startswith('canary-s') or c.get('canary_kind') in ('droprec',)]
    run.judge('Trace_WriteRead', traces + can, cat.tables(), canary_ids=[c['id'] for c in can],
              describe=lambda tr: [(e['c']['op'], bytes(e['c']['enc']['name']).decode('latin-1')) for e in tr['ev'] if e['k'] == 'call'])
    rcan = []
    pool = [c for c in rcases if any(r['kind'] == 'text' and any(x > 127 for x in r['text']) for r in c['recs'])]
    for k, c in enumerate(rng.sample(pool, min(6, len(pool)))):
        z = copy.deepcopy(c)
        z['canary_of'] = z['id']
        z['id'] = 'canary-r%d' % k
        for r in z['recs']:
            if r['kind'] == 'text' and any(x > 127 for x in r['text']):
                r['text'] = [x if x < 128 else 63 for x in r['text']]
                break
        rcan.append(z)
    v = run.judge('Trace_Reader', rcases + rcan, cat.tables(), canary_ids=[c['id'] for c in rcan],
                  describe=lambda c: bytes(c['file'])[:300].decode('latin-1'))
    run.notes['reader_side_files'] = len(rcases)
    run.notes['reader_side_well_formed'] = sum(1 for c in rcases if v[c['id']][0] == 'ok')
    return run.finish(
        rule='Gen_Writer accepted paths and container-heavy walks with independent encoding choices on every '
             'container and probe content; foreign files for the reader side; distinct = (container/encoding '
             'history, length); non-trivial = >= 3 containers and >= 1 declared encoding',
        explanation='Scope.tla fix-point: both stack disciplines equal the nearest declared ancestor in every reachable '
                    'state; writer executions and reader executions judged separately by TLC')

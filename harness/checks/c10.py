"""C10  Reader accepts exactly the section orders the hierarchy allows.

Model:   Scope.tla AcceptIffOrder (complete graph); MC_Reader OrderLang (ids of the
         records of every token-level file form a path of the hierarchy).
Dir. A:  Gen_Sections with Extend: EVERY legal path up to the bound extended by EVERY id
         (9 legal + the 15 well-formed illegal ones: 0-3 dots x six names), every id as first header; rendered with
         minimal valid options/content.
Dir. B:  Trace_Reader (order): accepted id sequence and rejection point = ReadFile.
"""
import random

from harness import fgen, gen, rdriver
from harness.abstraction import Catalog
from harness.checks import _rcommon, c09


def describe(c):
    return bytes(c['file'])[:200].decode('latin-1')


def run(run, replay=None):
    rng = random.Random(run.seed)
    quick = run.tier == 'quick'
    run.mc('Scope', c09.SCOPE_CFG, note='order machine, complete graph: AcceptIffOrder')
    _rcommon.mc_reader(run, ['OrderLang', 'Total'], props=())
    cat = Catalog()
    _rcommon.note_pools(cat)
    behs = gen.behaviours('Gen_Sections', {'MaxLen': 7 if quick else 9, 'Extend': 'TRUE'},
                          invariant='EmitAll', run=run)
    if not quick and len(behs) > 60000:
        keep = [b for b in behs if len(b['ids']) <= 7]
        rest = [b for b in behs if len(b['ids']) > 7]
        behs = keep + rng.sample(rest, 60000 - len(keep))
    cases = []
    plain = fgen.Style(rng, plain=True)
    for n, b in enumerate(behs):
        style = plain if n % 3 else fgen.Style(rng)
        data, info = fgen.build_file(b['ids'], rng, style=style, texts=['a', 'x\ny\n'],
                                     metas=[{'a': 1}], diffs=[b'd\n'], encs=['utf-8', 'latin-1', 'utf-16'])
        cases.append(rdriver.case(n, 'order', data, cat))
        run.count(tuple(b['ids']), nontrivial=b['ended'] or len(b['ids']) >= 3)
        if n % max(1, len(behs) // 4) == 0:
            run.sample({'ids': b['ids'], 'extended_by_arbitrary_id': b['ended'],
                        'impl_records': len(cases[-1]['recs']), 'impl_end': cases[-1]['end']})
    def _mk_canaries():
        can = []
        import copy
        pool = [c for c in cases if c['recs']]
        for k, c in enumerate(rng.sample(pool, min(8, len(pool)))):
            z = copy.deepcopy(c)
            z['canary_of'] = z['id']
            z['id'] = 'canary-%d' % k
            if k % 2:
                z['recs'].pop()
            else:
                z['end'] = 'parse' if z['end'] == 'done' else 'done'
            can.append(z)
        return can
    can = run.tolerant(_mk_canaries)
    v = run.judge('Trace_Reader', cases + can, cat.tables(), canary_ids=[c['id'] for c in can],
                  describe=describe)
    run.notes['spec_accepted'] = sum(1 for c in cases if v[c['id']][2] == 'accepted')
    run.notes['spec_rejected'] = sum(1 for c in cases if v[c['id']][2] == 'rejected')
    return run.finish(
        rule='all Gen_Sections behaviours: every legal path of length < bound, each also extended by each of '
             'the 17 ids; distinct = id sequence; non-trivial = extended or >= 3 sections',
        explanation='the id sequence accepted by DiffXReader and the point of rejection equal those of '
                    'Reader.tla for every enumerated sequence; order machine model-checked to fix-point')

"""C01  Streaming write -> read round trip preserves structure, content, options.

Model:   MC_Writer RoundTrip: Reader.tla over every reachable output of Writer.tla gives
         exactly the promised records (L2 |= L1, small scope, every accepted prefix).
Dir. A:  as C02.
Dir. B:  Trace_WriteRead (chk.read): the records the real DiffXReader yields over the
         bytes the real DiffXWriter produced must equal the records Writer.tla promises
         for those calls (text-level statement: payload + missing final line ending);
         on a sample the spec reader is also run over the spec bytes (self-check).
"""
import random

from harness.abstraction import Catalog
from harness.canary import writer_canaries
from harness.checks import _wcommon

CHK = {'order': False, 'bytes': False, 'read': True, 'scope': False}


def describe(tr):
    return [(e['c']['op'], bytes(e['c']['enc']['name']).decode('latin-1')) for e in tr['ev'] if e['k'] == 'call']


def run(run, replay=None):
    rng = random.Random(run.seed)
    _wcommon.mc_writer(run, ['RoundTrip'])
    cat = Catalog()
    seqs = _wcommon.writer_sequences(run, rng)
    traces = _wcommon.execute(run, seqs, cat, CHK, selfcheck_every=25)
    can = run.tolerant(lambda: writer_canaries(traces, rng, want=('read',)))
    run.judge('Trace_WriteRead', traces + can, cat.tables(), canary_ids=[c['id'] for c in can],
              describe=describe)
    run.assumptions += ['per-character tables of non-UTF codecs come from Python codecs (canonical name)',
                        'metadata compared as JSON values (object members in key order)']
    return run.finish(
        rule='as C02; each sequence is written by the real writer and read back by the real reader',
        explanation='records yielded by DiffXReader = records promised by Writer.tla (id, level, line, options, '
                    'content with missing final newline appended, metadata as JSON value); reader must end in done')

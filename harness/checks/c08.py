"""C08  Reader error contract: any bytes give records or a positioned parse error.

Model:   MC_Reader over all token-level files and ALL byte strings <= RawLen over an 11-byte
         alphabet: Total (the specification has exactly the outcomes yield / done /
         parse_error), Progress (input strictly shrinks), Terminates (liveness under weak
         fairness), ErrRange.
Dir. A:  random byte strings; 1-3 corruptions (catalogue of bad option values, byte flips,
         cuts, deletions, newline-style changes, duplicated options, non-ASCII in headers,
         dropped/duplicated lines) of canonical and foreign files.
Dir. B:  Trace_Reader (contract): DiffXReader ended in done or DiffXParseError with
         0 <= line <= physical lines and a message that agrees with line/column; DiffX.from_stream
         raised nothing outside the library's error family and closed the stream.
"""
import copy
import random

from harness import cgen, fgen, pools, rdriver, wgen
from harness.abstraction import Catalog
from harness.checks import _rcommon
from harness.wdriver import run_writer


def describe(c):
    return bytes(c['file'])[:300].decode('latin-1')


def run(run, replay=None):
    rng = random.Random(run.seed)
    quick = run.tier == 'quick'
    _rcommon.mc_reader(run, ['Total', 'ErrRange', 'PosOK'], props=('Progress',), quick=(3, 4), thorough=(5, 5))
    _rcommon.mc_reader(run, ['Total'], props=('Terminates',), quick=(2, 3), thorough=(3, 4), fair=True)
    cat = Catalog()
    bases = []
    paths = _rcommon.legal_paths(run, 7)
    for _ in range(60 if quick else 600):
        data, _i = fgen.build_file(rng.choice(paths), rng)
        bases.append(data)
    # 8-bit and UTF-16 files whose metadata holds non-ASCII characters literally (as other producers write them)
    for _ in range(30 if quick else 300):
        st = fgen.Style(rng)
        st.json_style = rng.choice(['unsorted', 'spaced'])
        data, _i = fgen.build_file(rng.choice(paths), rng, style=st, main_enc=rng.choice(['latin-1', 'cp1252', 'utf-16-be', 'koi8_r']),
                                   encs=['latin-1', 'cp1252', 'utf-16-be'], metas=[{'k': 'é', 'ü': ['ñ']}, {'name': 'café'}])
        bases.append(data)
    ws = wgen.walks(run, rng, 60 if quick else 600, 10, 0)
    for b in ws:
        _tr, data, _i = run_writer(0, rng.choice(pools.CTOR_ENCODINGS), wgen.conc(b, rng), Catalog(),
                                   {'order': False, 'bytes': False, 'read': False, 'scope': False})
        bases.append(data)
    total = 5000 if quick else 150000
    cases = []
    for n in range(total):
        r = rng.random()
        if r < 0.12:
            data = cgen.random_bytes(rng)
            origin = 'random-bytes'
        else:
            data = rng.choice(bases)
            for _ in range(rng.choice([1, 1, 2, 3])):
                data = cgen.corrupt(data, rng)
            origin = 'corrupted-file'
        res = rdriver.read_bytes(data, abstract=False)
        dom = rdriver.dom_load(data)
        c = rdriver.case(n, 'contract', data, cat, result=res, ship_recs=False, dom=dom)
        cases.append(c)
        run.count(data, nontrivial=res[1] != 'done' or dom['end'] != 'ok')
        if n % (total // 5) == 1:
            run.sample({'origin': origin, 'head': data[:100].decode('latin-1'), 'reader_end': res[1],
                        'line': res[2], 'dom_end': dom['end'], 'closed': dom['closed']})
    # every byte string of MC_Reader's explored raw space goes to the real reader too
    from harness import gen
    raws = gen.behaviours('MC_Reader', {'MaxTok': 0, 'RawLen': 3 if quick else 5}, invariant='EmitFiles', run=run,
                          cfg_extra='CONSTANT Tables <- NoTables\n', timeout=1200)
    for b in raws:
        data = bytes(b['f'])
        res = rdriver.read_bytes(data, abstract=False)
        c = rdriver.case(len(cases), 'contract', data, cat, result=res, ship_recs=False, dom=rdriver.dom_load(data))
        cases.append(c)
        run.count(data, nontrivial=res[1] != 'done')
    run.notes['byte_strings_from_MC_Reader'] = len(raws)
    def _mk_canaries():
        can = []
        pool = [c for c in cases if c['end'] == 'parse']
        for k, c in enumerate(rng.sample(pool, min(8, len(pool)))):
            z = copy.deepcopy(c)
            z['canary_of'] = z['id']
            z['id'] = 'canary-%d' % k
            if k % 4 == 0:
                z['end'] = 'other:TypeError'
            elif k % 4 == 1:
                z['line'] = len(z['file']) + 5
            elif k % 4 == 2:
                z['msgok'] = False
            else:
                z['dom'] = {'end': z['dom']['end'], 'closed': False}
            can.append(z)
        return can
    can = run.tolerant(_mk_canaries)
    run.judge('Trace_Reader', cases + can, cat.tables(), canary_ids=[c['id'] for c in can], describe=describe)
    ends = {}
    for c in cases:
        ends[c['end']] = ends.get(c['end'], 0) + 1
    run.notes['reader_outcomes'] = ends
    run.assumptions += ['termination is checked with a 10 s limit per input (Progress on the specification is the argument)']
    return run.finish(
        rule='random byte strings (12%) and 1-3 catalogue corruptions of canonical/foreign files; distinct = '
             'distinct inputs; non-trivial = the reader or the object model did not simply succeed',
        explanation='MC_Reader: Reader.tla is total with the three outcomes and strictly progresses on all token '
                    'files and all short byte strings; each real execution judged by TLC against the error contract')

"""C09  Writer enforces section order; rejected calls are atomic; append-only.

Model:   Scope.tla (order + level-stack machine, complete graph, no depth bound):
         AcceptIffOrder, RejectAtomic, WDepth (level consistency), TypeOK.
Dir. A:  Gen_Writer behaviours (exhaustive to MaxLen with <= MaxRej rejected calls,
         then -simulate walks) concretised and stepped through the real DiffXWriter;
         a state x call x invalid-argument tour.
Dir. B:  Trace_WriteRead (chk.order): accepted flag = spec, rejected call appended
         nothing, only appends, and every call after a rejected one appends exactly
         what it appends in a twin run that never made the rejected call.
"""
import random

from harness import gen, pools
from harness.abstraction import Catalog
from harness.canary import writer_canaries
from harness.wdriver import run_writer

SCOPE_CFG = '''SPECIFICATION Spec
CONSTANTS Enc = {e1, e2}  None = None  PopOne = FALSE
INVARIANT WDepth
INVARIANT TypeOK
INVARIANT WEff
PROPERTY RejectAtomic
PROPERTY AcceptIffOrder
CHECK_DEADLOCK FALSE
'''
CHK = {'order': True, 'bytes': False, 'read': False, 'scope': False}


def describe(tr):
    return [(e['c']['op'], e['c']['bad'], e['accepted']) for e in tr['ev'] if e['k'] == 'call']


def build_traces(run, rng, cat):
    quick = run.tier == 'quick'
    traces = []
    seqs = []
    # (i) exhaustive: all behaviours of the order machine up to MaxLen
    behs = gen.behaviours('Gen_Writer', {'MaxLen': 5 if quick else 7, 'MaxRej': 2,
                                         'NEnc': 0, 'NVar': 0, 'ContentEnc': 'TRUE'}, run=run)
    for b in behs:
        seqs.append([pools.conc_call(c['op'], c['e'], 0, rng, simple=True) for c in b])
    n_ex = len(seqs)
    # (ii) random walks far beyond the bound, with argument variants
    walks = gen.behaviours('Gen_Writer', {'MaxLen': 14 if quick else 30, 'MaxRej': 5 if quick else 10,
                                          'NEnc': 3, 'NVar': 3, 'ContentEnc': 'TRUE'},
                           simulate=400 if quick else 6000, depth=15 if quick else 31,
                           seed=run.seed + 1, run=run)
    for b in walks:
        seqs.append([pools.conc_call(c['op'], c['e'], c['v'], rng,
                                     invalid=(c['v'] == 3 and rng.random() < 0.5)) for c in b])
    # (iii) tour: every order state (by a shortest accepted path) x every call x every
    #       invalid-argument variant, followed by every single next call
    reps = {'diffx': []}
    for b in behs:
        for m in range(1, len(b) + 1):
            if not b[m - 1]['ok']:
                break
            if b[m - 1]['st'] not in reps or len(reps[b[m - 1]['st']]) > m:
                reps[b[m - 1]['st']] = b[:m]
    ops = ['change', 'file', 'preamble', 'meta', 'diff']
    for state, pre in sorted(reps.items()):
        base = [pools.conc_call(c['op'], c['e'], 0, rng, simple=True) for c in pre]
        for op in ops:
            for inv in pools.INVALID[op]:
                o, kw = pools.conc_call(op, 0, 0, rng, simple=True)
                kw = dict(kw)
                kw.update(inv)
                nxt = ops if not quick else [rng.choice(ops), rng.choice(ops)]
                for op2 in nxt:
                    seqs.append(base + [(o, kw), pools.conc_call(op2, 0, 0, rng, simple=True),
                                        pools.conc_call('change', 0, 0, rng, simple=True)])
    for n, calls in enumerate(seqs):
        enc = 'utf-8' if n < n_ex else rng.choice(pools.CTOR_ENCODINGS)
        tr, data, info = run_writer(n, enc, calls, cat, CHK)
        traces.append(tr)
        key = tuple((e['c']['op'], e['c']['bad'], e['accepted']) for e in tr['ev'] if e['k'] == 'call')
        run.count(key, nontrivial=any(not e['accepted'] for e in tr['ev'] if e['k'] == 'call'))
        if n in (0, n_ex, len(seqs) - 1):
            run.sample({'ctor_encoding': enc, 'calls': [(op, sorted(kw)) for op, kw in calls],
                        'accepted': [e['accepted'] for e in tr['ev'] if e['k'] == 'call']})
    return traces


def run(run, replay=None):
    rng = random.Random(run.seed)
    run.mc('Scope', SCOPE_CFG, note='order + level stack machine, complete graph (STRICT)')
    cat = Catalog()
    traces = build_traces(run, rng, cat)
    can = run.tolerant(lambda: writer_canaries(traces, rng, want=('order',)))
    run.judge('Trace_WriteRead', traces + can, cat.tables(), canary_ids=[c['id'] for c in can],
              describe=describe)
    run.assumptions += ['any exception raised by a writer call counts as a rejection',
                        'stream operations observed through a BytesIO subclass owned by the harness']
    return run.finish(
        rule='Gen_Writer behaviours (exhaustive to the length bound, -simulate walks beyond) and a '
             'state x call x invalid-argument tour, each stepped through the real DiffXWriter; '
             'distinct = distinct (op, invalid-variant, accepted) sequences; non-trivial = contains '
             'at least one rejected call',
        explanation='Scope.tla explored to fix-point (all histories); every recorded execution '
                    'validated event by event against Writer.tla by TLC (Trace_WriteRead, order clauses)')

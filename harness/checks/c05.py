"""C05  Object model written then parsed gives back the same tree.

Model:   MC_Dom RoundTrip: DomParse(DomSerialize(t)) = Normalize(t) for all small trees,
         where Normalize is the documented normalisation stated on the tree and nothing else.
Dir. A:  trees built through public constructors (keyword attributes in random order),
         add_change / add_file and typed-attribute assignments; values from the pools.
Dir. B:  Trace_Dom (chk.bytes): after every step the snapshot of every live tree = Dom.tla;
         to_bytes() = DomSerialize(tree) = Writer.tla run on ToCalls(tree), byte for byte;
         the snapshot of from_bytes(bytes) = DomParse(bytes).
"""
import random

from harness import domdriver, domgen
from harness.abstraction import Catalog
from harness.checks import _dcommon

CHK = {'bytes': True, 'adopt': False, 'c06': False}


def describe(tr):
    return [(e['k'], e.get('name'), e.get('status')) for e in tr['ev']]


def run(run, replay=None):
    rng = random.Random(run.seed)
    quick = run.tier == 'quick'
    _dcommon.mc_dom(run, ['RoundTrip', 'Canonical', 'Serialisable'])
    cat = Catalog()
    traces = []
    for n in range(700 if quick else 5000):
        # a third of the histories use ONE DiffXDOMWriter / DiffXDOMReader for all their serialisations and loads
        # (both classes are documented as reusable)
        h = domdriver.History(cat, shared_reader=(n % 3 == 0), shared_writer=(n % 3 == 0))
        tid = domgen.build_tree(h, rng, via_attrs=rng.random() < 0.5)
        if rng.random() < 0.4:
            # observe the half-built tree (serialise / compare / iterate), then keep building
            h.ser(tid)
            h.cmp(tid, tid)
            t = h.trees[tid - 1]
            for ci in range(1, len(t.changes) + 1):
                if rng.random() < 0.6:
                    h.addf(tid, ci, **domgen.rand_container_attrs(rng, 2))
            if rng.random() < 0.5:
                h.addc(tid, **domgen.rand_container_attrs(rng, 1))
                h.addf(tid, len(t.changes), **domgen.rand_container_attrs(rng, 2))
        e = h.ser(tid)
        if e['status'] == 'ok':
            h.parse(bytes(e['bytes']))
            h.ser(len(h.trees))
        traces.append(h.trace(n, CHK))
        s = e['snaps'][tid - 1]
        shape = (len(s['changes']), tuple(len(c['files']) for c in s['changes']))
        run.count(repr(s), nontrivial=e['status'] == 'ok' and len(s['changes']) >= 1)
        if n in (1, 300):
            run.sample({'shape': shape, 'serialised': e['status'], 'bytes': len(e['bytes']),
                        'ops': [(x['k'], x['name']) for x in h.ev][:12]})
    # every tree of MC_Dom's space, built with the real object model, serialised, parsed, serialised
    from harness import gen
    mtrees = gen.behaviours('MC_Dom', {'Scope': 1 if quick else 2}, invariant='Emit', run=run,
                            cfg_extra='CONSTANT Tables <- NoTables\n', timeout=1200)
    mtrees = rng.sample(mtrees, min(len(mtrees), 80 if quick else 1500))
    for t in mtrees:
        h = domdriver.History(cat)
        tid = domgen.build_from_model(h, t)
        e = h.ser(tid)
        if e['status'] == 'ok':
            h.parse(bytes(e['bytes']))
            h.ser(len(h.trees))
        traces.append(h.trace(len(traces), CHK))
        run.count(('model-tree', repr(t)), nontrivial=True)
    run.notes['trees_from_MC_Dom'] = len(mtrees)
    can = run.tolerant(lambda: _dcommon.dom_canaries(traces, rng))
    v = run.judge('Trace_Dom', traces + can, cat.tables(), canary_ids=[c['id'] for c in can], describe=describe)
    run.notes['serialised_ok'] = sum(1 for t in traces if any(e['k'] == 'parse' for e in t['ev']))
    return run.finish(
        rule='random trees (0-3 changes x 0-2 files) built by constructors / add_* / typed attributes from the '
             'adversarial pools, serialised, parsed and serialised again; distinct = snapshot of the tree; '
             'non-trivial = serialises and has >= 1 change',
        explanation='MC_Dom RoundTrip (Parse.Serialize = documented normalisation) on all small trees; each real history '
                    'validated step by step by TLC: snapshots, canonical bytes, parsed tree')

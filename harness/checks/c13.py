"""C13  Generated statistics are exact, additive, idempotent and non-destructive.

Model:   MC_Stats - Exact, Additive, Idempotent, NonDestructive for GenAll (Stats.tla) on ALL
         trees of <= 2 changes x <= 2 files over a pool of file kinds and pre-existing stats.
Dir. A:  random trees (0-3 changes x 0-3 files); diffs assembled from hunks with known
         counts (C14's generator), garbage between hunks, unix/dos, explicit/implicit
         line_endings, diff encodings {none, utf-8, latin-1, utf-16, utf-32, cp037}, binary /
         empty / absent / unparsable diffs, pre-existing stats with custom and stale keys.
Dir. B:  Trace_Stats: every section's metadata after DiffX.generate_stats() = Metas(GenAll(tree)),
         where Stats.tla splits, decodes and hunk-parses the diff bytes itself; a second call
         changes nothing.
"""
import copy
import random

from harness import domdriver
from harness.abstraction import Catalog
from harness.checks.c14 import gen_hunk

PRESTATS = [None, None, {'stats': {'custom': 7}}, {'stats': {'insertions': 40, 'deletions': 2, 'lines changed': 42, 'k': 1}},
            {'path': 'a/b', 'stats': {'files': 99}}, {'other': [1, {'x': None}]},
            {'stats': {'lines changed': 4}}, {'stats': {'changes': 5, 'files': 2}}, {'stats': {'changes': 1}}, {'stats': {'insertions': 1, 'deletions': 1, 'lines changed': 9, 'files': 3}}]
ENCS = [None, None, 'utf-8', 'latin-1', 'utf-16', 'utf-32', 'utf-16-be', 'cp037', 'utf-8-sig', 'UTF-16', 'utf_8_sig']


def make_diff(rng):
    """(bytes or None, encoding, line_endings, type)"""
    r = rng.random()
    if r < 0.08:
        return None, None, None, None
    if r < 0.14:
        return b'', None, None, None
    enc = rng.choice(ENCS)
    nlc = rng.choice(['\n', '\n', '\r\n'])
    lines = []
    if rng.random() < 0.4:
        lines += ['--- a/file', '+++ b/file']
    nh = rng.choice([1, 1, 2, 4, 0])
    if nh == 0:
        # a diff without any hunk (rename / mode change only, or plain garbage): parses, counts 0/0/0
        lines += rng.choice([['diff --git a/x b/y', 'similarity index 100%', 'rename from x', 'rename to y'],
                             ['old mode 100644', 'new mode 100755'], ['nothing here']])
    for _ in range(nh):
        if lines and rng.random() < 0.3:
            lines += [rng.choice(['diff --git a b', '', 'Index: x', 'garbage', '-- not a hunk line'])]
        lines += [l.decode('latin-1') for l in gen_hunk(rng)]
    if r < 0.22:
        # unparsable: cut the last hunk short or corrupt a line inside a hunk
        ks = [i for i, l in enumerate(lines) if l.startswith('@@ -')]
        if not ks:
            return make_diff(rng)
        k = max(ks)
        if len(lines) - k > 2:
            lines = lines[:-1]
        else:
            lines.insert(k + 1, 'oops')
    if rng.random() < 0.3:
        # characters that other notions of "line" would split on, inside a hunk line
        body = [i for i, l in enumerate(lines) if l[:1] in (' ', '+', '-') and not l.startswith(('---', '+++'))]
        if body:
            i = rng.choice(body)
            extra = rng.choice(['\x0c', '\x0b', '\x1c', '\x85', '\u2028', '\u2029'] + (['\r'] if nlc == '\n' else []))
            lines[i] = lines[i] + extra + rng.choice(['tail', '+x', '-y', ''])
    if rng.random() < 0.12:
        # a long line with multi-byte characters around byte 256 (and 512) of the encoded line
        i = rng.randrange(len(lines))
        lines[i] = lines[i] + 'x' * rng.randint(236, 262) + 'é€é€' + ('y' * rng.randint(240, 260) + '€é' if rng.random() < 0.3 else '')
    text = nlc.join(lines) + (nlc if rng.random() < 0.9 else '')
    try:
        raw = text.encode(enc or 'latin-1')
    except UnicodeError:
        raw = text.encode('utf-8')
        enc = 'utf-8'
    le = rng.choice([None, 'dos' if nlc == '\r\n' else 'unix'])
    typ = rng.choice([None, None, 'text', 'binary']) if r > 0.3 else rng.choice([None, 'text'])
    return raw, enc, le, typ


def build(rng):
    from pydiffx.dom import DiffX
    d = DiffX()
    pre = rng.choice(PRESTATS)
    if pre:
        d.meta = copy.deepcopy(pre)
    for _ in range(rng.choice([0, 1, 1, 2, 3])):
        ch = d.add_change()
        pre = rng.choice(PRESTATS)
        if pre:
            ch.meta = copy.deepcopy(pre)
        for _f in range(rng.choice([0, 1, 2, 3])):
            f = ch.add_file()
            pre = rng.choice(PRESTATS)
            f.meta = copy.deepcopy(pre) if pre else {'path': 'x'}
            raw, enc, le, typ = make_diff(rng)
            if raw is not None:
                f.diff = raw
            if enc:
                f.diff_encoding = enc
            if le:
                f.diff_line_endings = le
            if typ:
                f.diff_type = typ
    return d


def run(run, replay=None):
    import logging
    logging.disable(logging.CRITICAL)
    rng = random.Random(run.seed)
    quick = run.tier == 'quick'
    run.mc('MC_Stats', 'SPECIFICATION Spec\nCONSTANT Tables <- NoTables\nINVARIANT Exact\nINVARIANT Additive\n'
                       'INVARIANT Idempotent\nINVARIANT NonDestructive\nCHECK_DEADLOCK FALSE\n',
           note='GenAll on all small trees: exact, additive, idempotent, non-destructive')
    cat = Catalog()
    cat.note('abcdefghijklmnopqrstuvwxyz/\\@+- \x0c\x0b\x1c\x85\u2028\u2029\ré€')
    cases = []
    for n in range(1500 if quick else 40000):
        d = build(rng)
        if rng.random() < 0.3:
            try:
                from pydiffx.dom import DiffX
                d = DiffX.from_bytes(d.to_bytes())       # option values are now strings created at run time
            except Exception:       # noqa: trees that do not serialise stay as built
                pass
        tree = domdriver.stats_tree(d, cat)
        exc = ''
        after = after2 = []
        try:
            d.generate_stats()
            after = domdriver.metas(d)
            d.generate_stats()
            after2 = domdriver.metas(d)
        except Exception as e:      # noqa
            exc = type(e).__name__
        cases.append({'id': n, 'tree': tree, 'after': after, 'after2': after2, 'exc': exc})
        nfiles = sum(len(c['files']) for c in tree['changes'])
        run.count(repr(tree), nontrivial=nfiles >= 1)
        if n in (3, 700):
            run.sample({'changes': len(tree['changes']), 'files': nfiles,
                        'main_stats_after': d.meta.get('stats'),
                        'diff_encodings': [f.diff_encoding for c in d.changes for f in c.files]})
    # every tree of MC_Stats' space, built with the real object model
    from harness import gen
    from harness.abstraction import jconc
    from pydiffx.dom import DiffX
    mtrees = gen.behaviours('MC_Stats', {}, invariant='Emit', run=run, cfg_extra='CONSTANT Tables <- NoTables\n', timeout=900)
    if quick:
        mtrees = rng.sample(mtrees, min(len(mtrees), 600))
    for t in mtrees:
        d = DiffX()
        if t['meta']['items']:
            d.meta = jconc(t['meta'])
        for c in t['changes']:
            ch = d.add_change()
            if c['meta']['items']:
                ch.meta = jconc(c['meta'])
            for f in c['files']:
                fs = ch.add_file()
                if f['meta']['items']:
                    fs.meta = jconc(f['meta'])
                if f['d']['has']:
                    fs.diff = bytes(f['d']['raw'])
                if f['d']['type'] != 'none':
                    fs.diff_type = f['d']['type']
                if f['d']['le'] != 'none':
                    fs.diff_line_endings = f['d']['le']
        tree = domdriver.stats_tree(d, cat)
        exc = ''
        after = after2 = []
        try:
            d.generate_stats()
            after = domdriver.metas(d)
            d.generate_stats()
            after2 = domdriver.metas(d)
        except Exception as e:      # noqa
            exc = type(e).__name__
        cases.append({'id': len(cases), 'tree': tree, 'after': after, 'after2': after2, 'exc': exc})
        run.count(repr(tree), nontrivial=True)
    run.notes['trees_from_MC_Stats'] = len(mtrees)
    def _mk_canaries():
        can = []
        pool = [c for c in cases if len(c['after']) >= 3]
        for k, c in enumerate(rng.sample(pool, min(8, len(pool)))):
            z = copy.deepcopy(c)
            z['canary_of'] = z['id']
            z['id'] = 'canary-%d' % k
            m = z['after'][0]
            st = [it for it in m['items'] if bytes(it['k']) == b'stats'][0]['v']
            tgt = [it for it in st['items'] if bytes(it['k']) == (b'files' if k % 2 else b'insertions')][0]['v']
            tgt['n'] += 1
            can.append(z)
        return can
    can = run.tolerant(_mk_canaries)
    run.judge('Trace_Stats', cases + can, cat.tables(), canary_ids=[c['id'] for c in can],
              describe=lambda c: {'tree': c['tree'], 'after': c['after']})
    return run.finish(
        rule='random trees of 0-3 changes x 0-3 files with generated diffs of known geometry (see docstring); '
             'distinct = abstract tree; non-trivial = at least one file',
        explanation='MC_Stats proves the four clauses for GenAll on all small trees; TLC computes Metas(GenAll(tree)) '
                    'from the diff BYTES of each real tree and compares every section\'s metadata, twice')

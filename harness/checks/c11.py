"""C11  Header lines are accepted iff they match the specification header grammar.

Model:   MC_Header - the scanning recogniser and the DFA of Header.tla accept the same
         lines over all strings <= N of the 15-class alphabet; accepted options verbatim;
         ParseHeader(RenderHeader(..)) = identity.
Dir. A:  Gen_Header: TLC walks the live prefixes of the DFA and emits Acc(N), the complete
         set of accepted option strings <= N after "#..meta: length=3, x=1".  The harness
         enumerates ALL strings <= N over the alphabet (accepted or not) plus a catalogue of
         malformed section-id prefixes and feeds each header to the real reader.
Dir. B:  membership in TLC's Acc(N) decides accept/reject for the whole space; every accepted
         string, every disagreement and a sample of rejections go through Trace_Reader
         (header mode): accept/reject and verbatim options = ReadFile.
"""
import copy
import itertools
import random
from concurrent.futures import ProcessPoolExecutor

from harness import gen, rdriver
from harness.abstraction import Catalog

ALPHABET = [97, 90, 55, 95, 45, 46, 47, 61, 44, 32, 9, 35, 58, 43, 195]
HEAD = b'#diffx: encoding=utf-8, version=1.0\n#.change:\n'
PREFIX = b'#..meta: length=3, x=1'
TAIL = b'\n{}\n'

ID_CATALOGUE = [b'#....meta: length=3', b'#meta length=3', b'#.Meta: length=3', b'# ..meta: length=3',
                b'#..meta : length=3', b'#..meta:: length=3', b' #..meta: length=3', b'#..meta length=3',
                b'#..meta:\tlength=3', b'#..meta:  length=3', b'#..meta:length=3', b'#..meta: length=3 ',
                b'#..meta: length=3,', b'#..meta: length=3, ', b'#..meta: length=3,x=1', b'#..meta: length=3,  x=1',
                b'#..meta: length=3;x=1', b'#..meta: =3', b'#..meta: length=', b'#..meta: length', b'##..meta: length=3',
                b'#..meta: length=3, length=3', b'#..meta: Length=3, length=3', b'#..meta: 9a=1, length=3',
                b'#..meta: _a=1, length=3', b'#..meta: -a=1, length=3', b'#..meta: a=b=c, length=3',
                b'#..meta: a==b, length=3', b'#..meta: a=\xc3\xa9, length=3', b'#..meta: \xc3\xa9=1, length=3',
                b'#..meta: a=b\xc3\xa9, length=3', b'#..meta: a\xc3\xa9=1, length=3', b'#..meta: a=b+c, length=3',
                b'#..meta: a$x=b, length=3', b'#..meta: a=/x, length=3', b'#..meta: a=x/, length=3',
                b'#..meta: a b=1, length=3', b'#..meta: a=1 2, length=3', b'#..METa: length=3', b'#..metadata: length=3',
                b'#..met: length=3', b'#.\x2e.meta: length=3', b'#..meta: length=3\r', b'#..meta: length=3, a="b"']
# a repeated key: every occurrence must be valid, the last one is reported
for _bad in (b'+', b'b c', b'b=c', b'\xc3\xa9', b'', b'b,c', b'"b"'):
    ID_CATALOGUE += [b'#..meta: length=3, a=' + _bad + b', a=b', b'#..meta: length=3, a=b, a=' + _bad,
                     b'#..meta: a=' + _bad + b', length=3, a=b']
ID_CATALOGUE += [b'#..meta: length=3, a=1, a=2', b'#..meta: length=9, length=3', b'#..meta: length=3, a=b, A=c, a=d']
# every non-ASCII byte, in key and in value position
ID_CATALOGUE += [b'#..meta: length=3, a' + bytes([_b]) + b'=1' for _b in range(128, 256, 3)]
ID_CATALOGUE += [b'#..meta: length=3, a=b' + bytes([_b]) for _b in range(128, 256)]
ID_CATALOGUE += [b'#..meta: length=3, a=' + bytes([_b]) + b'b' for _b in range(129, 256, 5)]
# every ASCII punctuation / control character in key and in value position, and printf-style fragments
_PUNCT = [_b for _b in range(0, 128) if not (48 <= _b <= 57 or 65 <= _b <= 90 or 97 <= _b <= 122) and _b not in (10,)]
ID_CATALOGUE += [b'#..meta: length=3, a' + bytes([_b]) + b'=1' for _b in _PUNCT]
ID_CATALOGUE += [b'#..meta: length=3, a=b' + bytes([_b]) for _b in _PUNCT]
ID_CATALOGUE += [b'#..meta: length=3, a=' + bytes([_b]) + b'b' for _b in _PUNCT]
ID_CATALOGUE += [b'#..meta: length=3, a=100%', b'#..meta: length=3, a=%d', b'#..meta: length=3, a=%(x)s', b'#..meta: %s=1, length=3',
                 b'#..meta: 50% done', b'#..meta: length=3, a=%s%s', b'#..meta: length=3, a={0}', b'#..meta: length=3, a=\\n',
                 b'#..meta: length=%d', b'#..meta%s: length=3', b'#..meta: length=3, %(line_num)s=1']


def file_for(s, which=1):
    return HEAD + (PREFIX if which == 1 else PREFIX[:-1]) + s + TAIL


def _outcomes(chunk):
    out = []
    for which, s in chunk:
        recs, end, line, col, msgok = rdriver.read_bytes(file_for(s, which))
        out.append((which, s, end))
    return out


def enumerate_space(n):
    for ln in range(n + 1):
        for t in itertools.product(ALPHABET, repeat=ln):
            yield bytes(t)


def run(run, replay=None):
    rng = random.Random(run.seed)
    quick = run.tier == 'quick'
    n_mc = 4 if quick else 5
    n_enum = 4 if quick else 5
    mc_cfg = 'SPECIFICATION Spec\nCONSTANTS N = %d\nINVARIANT Agree\nINVARIANT Verbatim\nINVARIANT RenderParse\nCHECK_DEADLOCK FALSE\n'
    run.mc('MC_Header', mc_cfg % n_mc, note='recogniser = DFA on all strings <= %d over 15 classes' % n_mc)
    acc = set()
    for which in (1, 2):
        acc |= set((which, bytes(b['s'])) for b in gen.behaviours('Gen_Header', {'N': n_enum, 'Which': which},
                                                                  run=run, timeout=1800))
    space = [(w, s) for w in (1, 2) for s in enumerate_space(n_enum)]
    chunks = [space[k::64] for k in range(64)]
    with ProcessPoolExecutor(max_workers=16) as ex:
        results = [x for part in ex.map(_outcomes, chunks) for x in part]
    cat = Catalog()
    cases = []
    disagreements = 0
    nacc = 0
    cid = 0
    rejects = []
    good = []
    for which, s, end in results:
        run.evaluations += 1
        in_acc = (which, s) in acc
        if in_acc:
            nacc += 1
            run.distinct.add((which, s))
        agree = (end == 'done') == in_acc and end in ('done', 'parse')
        if in_acc or not agree:
            if not agree:
                disagreements += 1
            if in_acc and agree and len(cases) > (40000 if quick else 400000) and rng.random() > 0.1:
                continue
            cases.append(rdriver.case(cid, 'header', file_for(s, which), cat))
            if in_acc and agree:
                good.append(cases[-1])
            cid += 1
        else:
            rejects.append((which, s))
    for which, s in rng.sample(rejects, min(len(rejects), 1500 if quick else 20000)):
        cases.append(rdriver.case(cid, 'header', file_for(s, which), cat))
        cid += 1
    for h in ID_CATALOGUE:
        data = HEAD + h + TAIL
        cases.append(rdriver.case(cid, 'header', data, cat))
        run.count(('id-catalogue', h), nontrivial=True)
        cid += 1
    # the FIRST header line of the stream (and, for comparison, a later one) with something in front of the '#':
    # byte-order marks, other non-ASCII bytes, blanks - none of these lines is a header
    first = b'#diffx: encoding=utf-8, version=1.0'
    rest = b'\n#.change:\n#..file:\n#...meta: length=3\n{}\n'
    for pre in (b'\xef\xbb\xbf', b'\xff\xfe', b'\xfe\xff', b'\xff\xfe\x00\x00', b'\xc3\xa9', b' ', b'\t', b'\x00', b'\xa0', b'\xe2\x80\x8b',
                b'\xef\xbb\xbf\xef\xbb\xbf', b'x', b'##', b'\\', b'\x0c', b'\x1a'):
        for data in (pre + first + rest, b'\n\n' + pre + first + rest, first + b'\n' + pre + rest[1:],
                     first + b'\n#.change:\n' + pre + b'#..file:\n#...meta: length=3\n{}\n'):
            cases.append(rdriver.case(cid, 'header', data, cat))
            run.count(('prefixed-header', pre, len(data)), nontrivial=True)
            cid += 1
    for tail in (b' ', b'  ', b'\t', b' ,', b', ', b' \r'):       # a header without options followed by blanks / separators
        for hdr in (b'#.change:', b'#..file:'):
            data = first + b'\n' + (b'#.change:\n' if hdr == b'#..file:' else b'') + hdr + tail + b'\n' + (b'#..file:\n' if hdr == b'#.change:' else b'') + b'#...meta: length=3\n{}\n'
            cases.append(rdriver.case(cid, 'header', data, cat))
            run.count(('bare-header-tail', hdr, tail), nontrivial=True)
            cid += 1
    run.sample({'accepted_example': (PREFIX + sorted((s for w, s in acc if w == 1), key=len)[-1]).decode('latin-1')})
    run.sample({'accepted_example_value_position': (PREFIX[:-1] + sorted((s for w, s in acc if w == 2), key=len)[-1]).decode('latin-1')})
    run.sample({'rejected_example': (PREFIX + rejects[len(rejects) // 2][1]).decode('latin-1')})
    run.sample({'catalogue_example': ID_CATALOGUE[5].decode('latin-1')})
    def _mk_canaries():
        can = []
        pool = good
        for k, c in enumerate(rng.sample(pool, min(8, len(pool)))):
            z = copy.deepcopy(c)
            z['canary_of'] = z['id']
            z['id'] = 'canary-%d' % k
            if k % 2:
                z['end'] = 'parse'
                z['line'] = 2
            else:
                z['recs'][-1]['opts'].pop()
            can.append(z)
        return can
    can = run.tolerant(_mk_canaries)
    run.judge('Trace_Reader', cases + can, cat.tables(), canary_ids=[c['id'] for c in can],
              describe=lambda c: bytes(c['file'])[len(HEAD):].decode('latin-1'))
    run.notes.update({'strings_enumerated': len(space), 'in_Acc': nacc, 'disagreements_with_Acc': disagreements,
                      'bound_N': n_enum})
    return run.finish(
        rule='ALL strings of length <= N over 15 class representatives appended to "#..meta: length=3, x=1" '
             '(exhaustive) + catalogue of malformed id prefixes; distinct_nontrivial = strings the '
             'specification accepts (members of Acc(N)) + catalogue entries',
        explanation='accept/reject of every enumerated header decided by membership in the set Acc(N) that TLC '
                    'generated from the header DFA; accepted strings and all disagreements re-judged by TLC '
                    'through ReadFile (verbatim options, integers converted)',
        extra={'exhaustive': True})

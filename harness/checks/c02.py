"""C02  Writer emits only spec-conformant, canonical DiffX bytes.

Model:   MC_Writer - Canonical (every header re-renders to itself, ids follow the
         hierarchy, length frames) and RoundTrip (independent Reader.tla reads back
         exactly the promised records) in every reachable state, small scope.
Dir. A:  Gen_Writer accepted paths + one-section argument product + random walks.
Dir. B:  Trace_WriteRead (chk.bytes): the bytes each accepted call appended must equal,
         byte for byte, the delta computed by Writer.tla - the independent serializer.
"""
import random

from harness.abstraction import Catalog
from harness.canary import writer_canaries
from harness.checks import _wcommon

CHK = {'order': False, 'bytes': True, 'read': False, 'scope': False}


def describe(tr):
    return [(e['c']['op'], bytes(e['c']['enc']['name']).decode('latin-1')) for e in tr['ev'] if e['k'] == 'call']


def run(run, replay=None):
    rng = random.Random(run.seed)
    _wcommon.mc_writer(run, ['Canonical', 'RoundTrip', 'IdsLegal'], ['AppendOnly'])
    cat = Catalog()
    seqs = _wcommon.writer_sequences(run, rng, long_quick=True)
    traces = _wcommon.execute(run, seqs, cat, CHK)
    can = run.tolerant(lambda: writer_canaries(traces, rng, want=('bytes',)))
    run.judge('Trace_WriteRead', traces + can, cat.tables(), canary_ids=[c['id'] for c in can],
              describe=describe)
    run.assumptions += ['per-character tables of non-UTF codecs come from Python codecs (canonical name)',
                        'platform byte order of generic utf-16/utf-32 is little endian']
    return run.finish(
        rule='accepted call sequences from Gen_Writer (all accepted paths to the bound, random walks), plus the '
             'product of one content section\'s arguments; distinct = distinct (ctor encoding, per-call op, '
             'encoding spelling, indent, line_endings, payload length) tuples; non-trivial = >= 2 accepted calls',
        explanation='MC_Writer: Canonical/RoundTrip hold in every reachable state of the byte-level Writer.tla; '
                    'each real execution validated call by call: appended bytes = Writer.tla delta')

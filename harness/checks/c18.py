"""C18  Object-model instances are isolated and observers do not mutate.

Model:   Dom.tla has value semantics: every action of Trace_Dom changes exactly one tree of
         the state; ser / cmp / repr leave `trees` unchanged.
Dir. A:  Gen_Dom behaviours (TLC walks of the operation machine over up to three live trees) and seeded
         random interleavings over THREE live trees created by every route - constructor defaults,
         keyword construction, add_change/add_file, repeated parses through ONE
         DiffXDOMReader, repeated write_stream through ONE DiffXDOMWriter - of in-place
         metadata mutation (also nested), options[...] mutation, typed assignment,
         generate_stats, serialise (twice), compare and repr.
Dir. B:  Trace_Dom: after EVERY step the snapshot of ALL live trees must equal the
         specification state (so a step on one tree that disturbs another, or an observer
         that mutates, is caught at that step); two serialisations of one tree are equal.
"""
import random

from harness import domdriver, domgen, fgen, pools, rdriver
from harness.abstraction import Catalog
from harness.checks import _dcommon, _rcommon

CHK = {'bytes': False, 'adopt': True, 'c06': False}


def describe(tr):
    return [(e['k'], e['tid'], e['ci'], e['fi'], e['name'] or e['sec']) for e in tr['ev']]


def random_step(h, rng):
    nt = len(h.trees)
    tid = rng.randint(1, nt)
    t = h.trees[tid - 1]
    r = rng.random()
    ci = rng.randint(0, len(t.changes))
    fi = rng.randint(0, len(t.changes[ci - 1].files)) if ci else 0
    lvl = 0 if ci == 0 else (1 if fi == 0 else 2)
    if r < 0.22:
        k = rng.choice(['k', 'stats', 'é', 'a'])
        h.mut(tid, ci, fi, k, rng.choice([{'custom': 1}, {'insertions': 7, 'x': None}]) if k == 'stats'
              else rng.choice([1, 'v', None, {'n': [1]}, []]))
    elif r < 0.36:
        sec = rng.choice(['self', 'meta'] + (['pre'] if lvl < 2 else ['diff']))
        if rng.random() < 0.25:
            h.opt(tid, ci, fi, sec, rng.choice(['encoding', 'custom']), delete=True)
        else:
            h.opt(tid, ci, fi, sec, rng.choice(['encoding', 'custom']), rng.choice(['utf-16', 'latin-1', 'utf-8']))
    elif r < 0.52:
        attrs = domgen.rand_container_attrs(rng, lvl)
        if attrs:
            k = rng.choice(list(attrs))
            h.set(tid, ci, fi, k, attrs[k])
    elif r < 0.60 and len(t.changes) < 3:
        h.addc(tid, **(domgen.rand_container_attrs(rng, 1) if rng.random() < 0.5 else {}))
    elif r < 0.68 and ci and len(t.changes[ci - 1].files) < 3:
        h.addf(tid, ci, **(domgen.rand_container_attrs(rng, 2) if rng.random() < 0.7 else {}))
    elif r < 0.80:
        e = h.ser(tid)
        if e['status'] == 'ok':
            h.ser(tid, same_as=bytes(e['bytes']))
            if len(h.trees) < 4 and rng.random() < 0.5:
                h.parse(bytes(e['bytes']))
    elif r < 0.86:
        h.stats(tid)
    elif r < 0.89:
        h.mut2(tid, ci, fi, 'stats', *rng.choice([('insertions', 99), ('custom', 'x'), ('custom', 3)]))
    elif r < 0.95:
        h.cmp(tid, rng.randint(1, nt))
    else:
        h.repr(tid)


def run(run, replay=None):
    rng = random.Random(run.seed)
    quick = run.tier == 'quick'
    cat = Catalog()
    _rcommon.note_pools(cat)
    paths = [p for p in _rcommon.legal_paths(run, 6) if len(p) >= 2]
    traces = []
    for n in range(300 if quick else 2500):
        h = domdriver.History(cat, shared_reader=rng.random() < 0.6, shared_writer=rng.random() < 0.7)     # else DiffX.from_bytes / to_bytes
        h.new()
        h.new(**domgen.rand_container_attrs(rng, 0))
        domgen.build_tree(h, rng, via_attrs=rng.random() < 0.5)
        if rng.random() < 0.35:
            # a live tree that comes from a FOREIGN file (optional options omitted, other option order, ...)
            data, _info = fgen.build_file(rng.choice(paths), rng, main_enc=rng.choice(['utf-8', 'utf-16', 'latin-1']))
            # only files the library reads and loads (whether it SHOULD is C03's / C06's subject, not C18's)
            if rdriver.read_bytes(data, abstract=False)[1] == 'done' and rdriver.dom_load(data)['end'] == 'ok':
                e = h.parse(data)
                if e['status'] == 'ok':
                    h.ser(len(h.trees))
                    h.repr(len(h.trees))
        if rng.random() < 0.25:
            # the SAME reader is handed a stream without any section (empty, or blank lines only) after other
            # parses: it yields an empty tree of its own, which is then filled
            if len(h.trees) < 3 or rng.random() < 0.5:
                data, _info = fgen.build_file(rng.choice(paths), rng)
                if rdriver.read_bytes(data, abstract=False)[1] == 'done' and rdriver.dom_load(data)['end'] == 'ok':
                    h.parse(data)
            e = h.parse(rng.choice([b'', b'\n', b'\n\n  \n', b'\r\n']))
            if e['status'] == 'ok':
                t = len(h.trees)
                h.set(t, 0, 0, 'meta', {'filled': 'later'})
                h.set(t, 0, 0, 'preamble', 'text of the once empty tree')
                h.addc(t)
        for _ in range(rng.randint(6, 14) if quick else rng.randint(8, 24)):
            random_step(h, rng)
        traces.append(h.trace(n, CHK))
        run.count(repr([(e['k'], e['tid'], e['ci'], e['fi'], e['name'], e['sec']) for e in h.ev]),
                  nontrivial=len(h.trees) >= 3)
        if n in (2, 250):
            run.sample({'live_trees': len(h.trees), 'steps': [(e['k'], e['tid']) for e in h.ev]})
    # twins: two trees with EQUAL content (fresh, unshared values) go through every operation that derives
    # state (generate_stats, serialise, parse); then one of them is changed in place at every position
    for n in range(60 if quick else 600):
        seed = rng.randrange(1 << 30)
        h = domdriver.History(cat, shared_reader=rng.random() < 0.5, shared_writer=True)
        a = domgen.build_tree(h, random.Random(seed), via_attrs=True)
        b = domgen.build_tree(h, random.Random(seed), via_attrs=True)
        for t in (a, b):
            for ci, ch in enumerate(h.trees[t - 1].changes, 1):
                for fi, f in enumerate(ch.files, 1):
                    if rng.random() < 0.8:
                        h.set(t, ci, fi, 'diff', bytes(domgen.STAT_DIFFS[(ci + fi + seed) % 3]))
                        h.opt(t, ci, fi, 'diff', 'type', delete=True)
        h.stats(a)
        h.stats(b)
        e = h.ser(a)
        if e['status'] == 'ok' and rng.random() < 0.5:
            h.parse(bytes(e['bytes']))
            h.stats(len(h.trees))
        victim = rng.choice([a, b])
        t = h.trees[victim - 1]
        for ci in range(0, len(t.changes) + 1):
            for fi in range(0, (len(t.changes[ci - 1].files) if ci else 0) + 1):
                r = rng.random()
                if r < 0.6:
                    h.mut2(victim, ci, fi, 'stats', *rng.choice([('insertions', 99), ('custom', 'x'), ('lines changed', 7)]))
                elif fi:
                    h.set(victim, ci, fi, 'diff', bytes(domgen.STAT_DIFFS[(seed + ci) % 4]))
                    h.stats(victim)
        h.stats(rng.choice([a, b]))
        h.cmp(a, b)
        # the SAME bytes loaded twice: the two results share nothing, not even nested metadata values
        e = h.ser(a)
        if e['status'] == 'ok':
            p1 = h.parse(bytes(e['bytes']))
            p2 = h.parse(bytes(e['bytes']))
            if p1['status'] == 'ok' and p2['status'] == 'ok':
                t1 = len(h.trees) - 1
                t = h.trees[t1 - 1]
                for ci in range(0, len(t.changes) + 1):
                    for fi in range(0, (len(t.changes[ci - 1].files) if ci else 0) + 1):
                        h.mut2(t1, ci, fi, 'stats', 'insertions', 12345)
                h.stats(t1)
                h.cmp(t1, t1 + 1)
        traces.append(h.trace(len(traces), CHK))
        run.count(('twins', seed), nontrivial=True)
    # histories enumerated / walked by TLC (Gen_Dom), concretised against the real trees
    from harness import gen
    behs = gen.behaviours('Gen_Dom', {'MaxLen': 3, 'MaxTrees': 2, 'NAttr': 2, 'NVal': 1}, run=run) if not quick else []
    behs += gen.behaviours('Gen_Dom', {'MaxLen': 14 if quick else 24, 'MaxTrees': 3, 'NAttr': 14, 'NVal': 5},
                           simulate=12 if quick else 100, depth=15 if quick else 25, seed=run.seed + 5, run=run,
                           limit=350 if quick else 3000)
    for b in behs:
        h = domdriver.History(cat, shared_reader=True, shared_writer=True)
        domgen.run_history(h, b, rng)
        if h.ev:
            traces.append(h.trace(len(traces), CHK))
            run.count(repr([(e['k'], e['tid'], e['ci'], e['fi'], e['name'], e['sec']) for e in h.ev]),
                      nontrivial=len(h.trees) >= 2)
    can = run.tolerant(lambda: _dcommon.dom_canaries(traces, rng))
    run.judge('Trace_Dom', traces + can, cat.tables(), canary_ids=[c['id'] for c in can], describe=describe)
    return run.finish(
        rule='random interleavings (seeded) of mutators and observers over >= 3 live trees created by all routes; '
             'distinct = sequence of (operation, tree, section, attribute); non-trivial = >= 3 live trees',
        explanation='every step validated by TLC against the value-semantics model: the snapshots of ALL live trees '
                    'after the step equal the specification state, observers leave it unchanged')

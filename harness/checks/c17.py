"""C17  Reader output does not depend on stream chunking or header alignment.

Model:   ReadUntil.tla - the chunked read-ahead with seek-back, all streams <= MaxLen over
         {LF, x} x all block sizes x all start positions: NoLossNoDup.
Enum.:   well-formed files x padding 0..P after/in the first header (shifting every later
         header through every alignment) x read-ahead block sizes (1.. and > file size),
         through a DiffXReader subclass that only changes the default block size.
Dir. B:  all block sizes of one (file, padding) must give the same records (equality of
         observations); TLC judges that common list against the records of the unpadded file
         read with the default block size (Trace_Reader unknown mode: equal, plus the padding
         option on the first record) - block size does not appear in the specification at all.
"""
import copy
import random
from concurrent.futures import ProcessPoolExecutor

from harness import fgen, rdriver, wgen, pools
from harness.abstraction import Catalog
from harness.checks import _rcommon
from harness.wdriver import run_writer


def block_size_hook_available():
    """The read-ahead block size can only be varied while DiffXReader still has a
    `_read_until(self, c, chunk_size=...)`; after a refactoring that removes it, only header padding varies
    the alignment (both are in C17's quantifier) and the plain reader is used."""
    import inspect
    from pydiffx import DiffXReader
    f = getattr(DiffXReader, '_read_until', None)
    if f is None:
        return False
    try:
        return 'chunk_size' in inspect.signature(f).parameters
    except (TypeError, ValueError):
        return False


def _factory(bs):
    from pydiffx import DiffXReader
    if not block_size_hook_available():
        return DiffXReader

    class R(DiffXReader):
        def _read_until(self, c, chunk_size=None):
            return DiffXReader._read_until(self, c, chunk_size=bs)
    return R


class _Minimal(object):
    """read / seek / tell and nothing else."""

    def __init__(self, fp):
        self._fp = fp

    def read(self, n=-1):
        return self._fp.read(n)

    def seek(self, off, whence=0):
        return self._fp.seek(off, whence)

    def tell(self):
        return self._fp.tell()


def _plain_reader():
    from pydiffx import DiffXReader
    return DiffXReader


import io as _io
STREAM_KINDS = [(-16, lambda fp: _io.BufferedReader(fp, buffer_size=16)), (-50, lambda fp: _io.BufferedReader(fp, buffer_size=50)),
                (-97, lambda fp: _io.BufferedReader(fp, buffer_size=97)), (-200, lambda fp: _io.BufferedReader(fp, buffer_size=200)),
                (-1, _Minimal)]


def pad_file(data, p):
    """Shift everything after the first header by p bytes; returns (bytes, ins)."""
    h = data.index(b'#diffx')
    k = data.index(b'\n', h)
    first = data[:k]
    cr = first.endswith(b'\r')
    if cr:
        first = first[:-1]
    if p == 0:
        return data, []
    if p >= 7:
        v = b'x' * (p - 6)
        return first + b', pad=' + v + (b'\r' if cr else b'') + data[k:], [{'sec': 1, 'k': list(b'pad'), 'v': list(v)}]
    # small shifts: a whitespace-only line of p-1 spaces after the first header
    return data[:k + 1] + b' ' * (p - 1) + b'\n' + data[k + 1:], []


def pad_header(data, h, total):
    """Pad the h-th header line (0-based; headers located at line starts - only used for files whose
    content cannot look like a header) with an unknown option so that its text becomes `total` bytes."""
    import re
    # walk the file structurally: header line, then `length` bytes of content (UTF-16 content ends in
    # LF NUL, so headers do not always start right after a 0x0A byte)
    spans = []
    pos = 0
    while pos < len(data):
        k = data.find(b'\n', pos)
        if k < 0:
            break
        raw = data[pos:k]
        if not raw.strip():
            pos = k + 1
            continue
        line = raw[:-1] if raw.endswith(b'\r') else raw
        if not line.startswith(b'#'):
            return None
        spans.append((pos, pos + len(line)))
        m = re.search(rb'length=(\d+)', line)
        pos = k + 1 + (int(m.group(1)) if m else 0)
    if h >= len(spans):
        return None
    a, b = spans[h]
    line = data[a:b]

    class _M(object):
        def end(self):
            return b
    m = _M()
    need = total - len(line)
    sep = b', ' if b'=' in line else b' '
    if need < len(sep) + 5:
        return None
    v = b'x' * (need - len(sep) - 4)
    return (data[:m.end()] + sep + b'pad=' + v + data[m.end():], [{'sec': h + 1, 'k': list(b'pad'), 'v': list(v)}])


def _work(args):
    data, pads, sizes = args
    out = []
    for p in pads:
        if isinstance(p, tuple):
            r = pad_header(data, p[0], p[1])
            if r is None:
                continue
            padded, ins = r
        else:
            padded, ins = pad_file(data, p)
        results = {}
        for bs in sizes:
            res = rdriver.read_bytes(padded, reader_factory=_factory(bs))
            key = repr(res)
            if key not in results:
                results[key] = (bs, res)
        # the same bytes through other kinds of stream: buffered readers (which offer peek()) with buffers smaller
        # than the file, and a stream that has nothing but read / seek / tell
        for label, wrap in STREAM_KINDS:
            res = rdriver.read_bytes(padded, reader_factory=lambda fp, _w=wrap: _plain_reader()(_w(fp)))
            key = repr(res)
            if key not in results:
                results[key] = (label, res)
        out.append((p, ins, padded, list(results.values())))
    return out


def run(run, replay=None):
    rng = random.Random(run.seed)
    quick = run.tier == 'quick'
    run.mc('ReadUntil', 'SPECIFICATION FairSpec\nCONSTANTS MaxLen = %d MaxChunk = %d\nINVARIANT NoLossNoDup\n'
                        'PROPERTY Terminates\nCHECK_DEADLOCK FALSE\n' % ((7, 9) if quick else (10, 12)),
           note='chunked read-ahead: all streams x block sizes x start positions; terminates under weak fairness')
    cat = Catalog()
    _rcommon.note_pools(cat)
    files = []
    paths = [p for p in _rcommon.legal_paths(run, 7) if len(p) >= 4]
    while len(files) < (5 if quick else 24):
        style = fgen.Style(rng)
        if len(files) % 2 == 0:
            style.hdr_nl = b'\r\n'           # every other file has CRLF header lines
        data, _i = fgen.build_file(rng.choice(paths), rng, style=style, texts=['plain text\n', 'two\nlines', 'é', '  starts with blanks\n', '\nblank first line\n',
                                          '\t\ttabs\n', ' \n \n'],
                                   diffs=[b'--- a\n+++ b\n', b'x\r\ny\r\n', b' context first\n-x\n+y\n', b'\n', b'\t\n'])
        if len(data) < 900 and rdriver.read_bytes(data)[1] == 'done':
            files.append(data)
    nsafe = len(files)
    ws = wgen.walks(run, rng, 5 if quick else 24, 8, 0, nenc=4)
    for b in ws:
        _tr, data, _i = run_writer(0, rng.choice(['utf-8', 'utf-16']), wgen.conc(b, rng), Catalog(),
                                   {'order': False, 'bytes': False, 'read': False, 'scope': False})
        if len(data) < 1200:
            files.append(data)
    # a file with a very long header line and a very long content line
    long_hdr = (b'#diffx: encoding=utf-8, version=1.0\n#.change: ' + b', '.join(b'k%d=%s' % (i, b'v' * 40) for i in range(8))
                + b'\n#..file:\n#...meta: length=%d\n' % (len(b'{"a": "' + b'y' * 300 + b'"}\n'))
                + b'{"a": "' + b'y' * 300 + b'"}\n')
    files.append(long_hdr)
    pads = list(range(0, 194))
    sizes = [1, 2, 3, 5, 7, 16, 31, 64, 95, 96, 97, 128, 191, 192, 193, 10 ** 6] if quick else list(range(1, 194)) + [10 ** 6]
    jobs = [(data, pads[k::4], sizes) for data in files for k in range(4)]
    # later headers brought to every length around the block size (only files whose content has no '#')
    later = [(h, total) for h in (0, 1, 2, 3, 4)
             for total in (list(range(90, 101)) + list(range(188, 197)) + [288] if quick else list(range(60, 200)) + [287, 288, 289])]
    jobs += [(data, later[k::2], sizes) for data in files[:nsafe] for k in range(2)]
    with ProcessPoolExecutor(max_workers=16) as ex:
        outs = list(ex.map(_work, jobs))
    cases = []
    cid = 0
    nreads = 0
    disagreeing = 0
    for (data, _p, _s), out in zip(jobs, outs):
        base = rdriver.read_bytes(data)
        for p, ins, padded, results in out:
            nreads += len(sizes)
            if len(results) > 1:
                disagreeing += 1
            for bs, res in results:
                c = rdriver.case(cid, 'unknown', padded, cat, result=res, base=base[0], baseend=base[1], ins=ins,
                                 ship_file=False)
                c['cmap'] = []
                c['block_size'] = bs
                c['padding'] = p
                cases.append(c)
                cid += 1
            run.count((data[:50], p), nontrivial=p != 0)
    run.sample({'file_bytes': len(files[0]), 'paddings': '0..%d' % pads[-1], 'block_sizes': sizes if quick else '1..193, 10^6',
                'head': files[0][:80].decode('latin-1')})
    run.sample({'long_header_file_bytes': len(long_hdr)})
    def _mk_canaries():
        can = []
        pool = [c for c in cases if c['recs']]
        for k, c in enumerate(rng.sample(pool, min(8, len(pool)))):
            z = copy.deepcopy(c)
            z['canary_of'] = z['id']
            z['id'] = 'canary-%d' % k
            r = z['recs'][-1]
            if k % 2 and (r['raw'] or r['text']):
                (r['raw'] or r['text']).pop()      # one byte of content lost
            else:
                z['recs'].append(copy.deepcopy(r))  # a section read twice
            can.append(z)
        return can
    can = run.tolerant(_mk_canaries)
    run.judge('Trace_Reader', cases + can, None, canary_ids=[c['id'] for c in can],
              describe=lambda c: {'padding': c['padding'], 'block_size': c['block_size'], 'end': c['end']})
    # ---- the stream protocol: read / seek / yield logs of the real reader replayed through ReaderIO.tla ----
    run.mc('MC_ReaderIO', 'SPECIFICATION Spec\nCONSTANTS MaxLen = %d MaxChunk = %d\nWant <- ToyWant\nINVARIANT FramesOfStream\n'
                          'INVARIANT Sequential\nINVARIANT Lazy\nCHECK_DEADLOCK FALSE\n' % ((5, 4) if quick else (6, 7)),
           note='whole-file stream protocol: all streams x a fresh block size at every read; frames are a function of the stream')
    run.mc('MC_ReaderIO', 'SPECIFICATION FairSpec\nCONSTANTS MaxLen = 4 MaxChunk = 3\nWant <- ToyWant\nPROPERTY Terminates\n'
                          'CHECK_DEADLOCK FALSE\n', note='stream protocol: every run ends (weak fairness)')
    run.mc('MC_ReaderIO', 'SPECIFICATION BadSpec\nCONSTANTS MaxLen = 4 MaxChunk = 3\nWant <- ToyWant\nINVARIANT FramesOfStream\n'
                          'CHECK_DEADLOCK FALSE\n', expect='violation',
           note='sanity: a reader that does not seek back after the delimiter violates FramesOfStream')
    io = []
    iosizes = [1, 2, 7, 31, 96, 97, 10 ** 6] if quick else [1, 2, 3, 5, 7, 16, 31, 64, 95, 96, 97, 128, 193, 10 ** 6]
    iofiles = list(files)
    for data in files[:nsafe]:
        for _k in range(2 if quick else 6):          # damaged files: the log must stay legal up to the error
            cut = rng.randrange(1, len(data))
            iofiles.append(data[:cut] if rng.random() < 0.5 else data[:cut] + b'#' + data[cut:])
    for data in iofiles:
        for bs in iosizes:
            io.append(rdriver.io_trace('io-%d' % len(io), data, _factory(bs)))

    def _io_canaries():
        out = []
        pool = [t for t in io if t['end'] == 'done' and any(e['op'] == 'seek' for e in t['ev'])]
        for k, t in enumerate(rng.sample(pool, min(10, len(pool)))):
            z = copy.deepcopy(t)
            z['canary_of'] = z['id']
            z['id'] = 'io-canary-%d' % k
            seeks = [n for n, e in enumerate(z['ev']) if e['op'] == 'seek' and n + 2 < len(z['ev'])]
            yields = [n for n, e in enumerate(z['ev']) if e['op'] == 'yield' and n + 1 < len(z['ev'])]
            reads = [n for n, e in enumerate(z['ev']) if e['op'] == 'read' and n > 0 and z['ev'][n - 1]['op'] == 'yield'
                     and e['n'] != iosizes[0] and e['n'] not in iosizes]
            kind = k % 4
            if kind == 0 and seeks:
                z['ev'][rng.choice(seeks)]['pos'] += 1          # sought back one byte short
            elif kind == 1 and [n for n in seeks if z['ev'][n]['off'] != 0]:
                del z['ev'][rng.choice([n for n in seeks if z['ev'][n]['off'] != 0])]     # bytes read past the delimiter are not given back
            elif kind == 2 and yields:
                n = rng.choice(yields)
                z['ev'][n], z['ev'][n + 1] = z['ev'][n + 1], z['ev'][n]   # read on before yielding
            elif reads:
                z['ev'][rng.choice(reads)]['n'] += 1             # content read longer than declared
            else:
                z['ev'][seeks[0]]['pos'] -= 1
            out.append(z)
        return out
    iocan = run.tolerant(_io_canaries)
    run.judge('Trace_ReaderIO', io + iocan, None, canary_ids=[c['id'] for c in iocan], with_tables=False,
              cfg_extra='INVARIANT TFramesOfStream\nINVARIANT TSequential\nINVARIANT TLazy\n',
              advisory='stream_protocol_mismatches(model ReaderIO.tla no longer describes the reader; not a violation)',
              describe=lambda c: {'end': c['end'], 'operations': len(c['ev'])})
    run.notes['stream_protocol_logs'] = len(io)
    run.notes['stream_protocol_operations'] = sum(len(t['ev']) for t in io)
    run.notes.update({'files': len(files), 'reads': nreads, 'file_padding_pairs_with_block_size_dependent_result': disagreeing})
    run.notes['block_size_varied'] = block_size_hook_available()
    run.assumptions += ['block size is varied through a subclass that overrides the default argument of _read_until '
                        '(if that method still exists with that parameter)']
    return run.finish(
        rule='files x paddings x block sizes; distinct = (file, padding); non-trivial = padding > 0; every read is '
             'an evaluation (see notes.reads)',
        explanation='ReadUntil.tla NoLossNoDup on the complete small-scope graph; all block sizes must agree and TLC '
                    'checks the agreed records against the unpadded default-block reading',
        extra={'evaluations': nreads})

"""C16  Line splitting is lossless and consistent between its two modes.

Model:   MC_Split - Lossless, Terminated, Counted, TwoModes hold for SplitKeep/SplitDrop
         (Bytes.tla) on ALL byte strings up to the bound, for each of the ten newlines.
Enum.:   the same spaces (all strings over {CR, LF, NUL, SP, 'a'} for the 1-byte-unit
         newlines, reduced alphabets and longer bounds for UTF-16/32 newlines) and random
         strings up to 2 KB through the real split_lines, both modes.
Dir. B:  Trace_Split: both real results, every line in full, = SplitKeep / SplitDrop.
"""
import copy
import itertools
import random

NEWLINES = {
    'NL_LF': b'\n', 'NL_CRLF': b'\r\n',
    'NL_LF16LE': b'\n\x00', 'NL_LF16BE': b'\x00\n', 'NL_CRLF16LE': b'\r\x00\n\x00', 'NL_CRLF16BE': b'\x00\r\x00\n',
    'NL_LF32LE': b'\n\x00\x00\x00', 'NL_LF32BE': b'\x00\x00\x00\n',
    'NL_CRLF32LE': b'\r\x00\x00\x00\n\x00\x00\x00', 'NL_CRLF32BE': b'\x00\x00\x00\r\x00\x00\x00\n',
}


def plan(quick):
    """(newline name, alphabet, max length) per newline."""
    out = []
    for name, nl in NEWLINES.items():
        if len(nl) <= 2 and name in ('NL_LF', 'NL_CRLF'):
            out.append((name, [13, 10, 0, 32, 97], 5 if quick else 7))
        elif len(nl) == 2:
            out.append((name, [13, 10, 0, 97], 6 if quick else 8))
        elif len(nl) == 4:
            out.append((name, sorted(set(nl) | {97}), 7 if quick else 10))
        else:
            out.append((name, sorted(set(nl)), 8 if quick else 12))
    return out


def observe(cid, data, nl):
    from pydiffx.utils.text import split_lines
    exc = ''
    keep = drop = []
    try:
        keep = split_lines(data, nl, keep_ends=True)
        drop = split_lines(data, nl)
        if len(data) >= 200:
            # a function of its arguments: the same call again, in either order of the two modes, gives the same lines
            again = [split_lines(data, nl, keep_ends=False), split_lines(data, nl, keep_ends=True),
                     split_lines(data, nl, keep_ends=False), split_lines(data, nl, keep_ends=True)]
            if again[0] != drop or again[2] != drop or again[1] != keep or again[3] != keep:
                exc = 'ResultChangesWhenTheCallIsRepeated'
    except Exception as e:      # noqa
        exc = type(e).__name__
    return {'id': cid, 'data': list(data), 'nl': list(nl), 'keep': [list(x) for x in keep],
            'drop': [list(x) for x in drop], 'exc': exc}


def run(run, replay=None):
    rng = random.Random(run.seed)
    quick = run.tier == 'quick'
    cfg = ('SPECIFICATION Spec\nCONSTANTS MaxLen = %d Alphabet = {%s} NLSeq <- %s\nINVARIANT Lossless\n'
           'INVARIANT Terminated\nINVARIANT Counted\nINVARIANT TwoModes\nCHECK_DEADLOCK FALSE\n')
    run.mc('MC_Split', 'SPECIFICATION Spec\nCONSTANTS MaxLen = %d Alphabet = {10, 13, 0} NLSeq <- NL_CRLF\nINVARIANT FindAgree\n'
                       'CHECK_DEADLOCK FALSE\n' % (6 if quick else 8),
           note='the recursive and the comprehension formulation of Bytes!Find agree (all strings, patterns, start positions)', workers=8)
    cases = []
    cid = 0
    for name, alpha, mx in plan(quick):
        run.mc('MC_Split', cfg % (mx, ', '.join(map(str, alpha)), name),
               note='%s: all strings <= %d over %s' % (name, mx, alpha), workers=8)
        nl = NEWLINES[name]
        cap = 6000 if quick else 120000
        space = 0
        for ln in range(1, mx + 1):
            for t in itertools.product(alpha, repeat=ln):
                space += 1
                if space > cap and rng.random() > 0.05:
                    continue
                data = bytes(t)
                cases.append(observe(cid, data, nl))
                cid += 1
                run.count((name, data), nontrivial=nl[:1] in data or nl[-1:] in data)
        for _ in range(60 if quick else 2000):
            ln = rng.choice([1, 3, 17, 64, 300, 2048])
            pieces = [nl, nl[:1], nl[1:], nl[:-1], b'a', b' ', b'\x00', b'xyz', nl + nl, b'\r', b'\n']
            data = b''
            while len(data) < ln:
                data += rng.choice(pieces)
            cases.append(observe(cid, data, nl))
            cid += 1
            run.count((name, data), nontrivial=True)
    # large inputs whose newline straddles a power-of-two offset (block-wise implementations)
    big = 0
    for name in (('NL_CRLF', 'NL_LF16LE', 'NL_CRLF16BE') if quick else list(NEWLINES)):
        nl = NEWLINES[name]
        for size in ((4096, 16384) if quick else (4096, 8192, 16384, 65536)):
            for back in range(1, len(nl)):
                data = b'x' * (size - back) + nl + b'tail' + nl
                cases.append(observe(cid, data, nl))
                cid += 1
                big += 1
                run.count((name, 'straddle', size, back), nontrivial=True)
            data = b'q' * (size - len(nl)) + nl + nl + b'z'
            cases.append(observe(cid, data, nl))
            cid += 1
    run.notes['large_inputs'] = big
    run.sample({'newline': 'NL_CRLF16LE', 'data': list(cases[len(cases) // 2]['data']),
                'keep_ends': cases[len(cases) // 2]['keep']})
    run.sample({'data': list(cases[7]['data']), 'newline': cases[7]['nl'], 'keep_ends': cases[7]['keep'],
                'no_ends': cases[7]['drop']})
    def _mk_canaries():
        can = []
        pool = [c for c in cases if len(c['keep']) >= 2]
        for k, c in enumerate(rng.sample(pool, min(8, len(pool)))):
            z = copy.deepcopy(c)
            z['canary_of'] = z['id']
            z['id'] = 'canary-%d' % k
            if k % 2:
                z['keep'][0] = z['keep'][0][:-1]
            else:
                z['drop'][-1] = z['drop'][-1] + z['nl']
            can.append(z)
        return can
    can = run.tolerant(_mk_canaries)
    run.judge('Trace_Split', cases + can, None, canary_ids=[c['id'] for c in can], with_tables=False,
              describe=lambda c: {'data': c['data'], 'nl': c['nl']})
    return run.finish(
        rule='all byte strings up to the per-newline bound over the per-newline alphabet (capped per newline, '
             'beyond the cap a 5% sample) + random strings up to 2 KB built from newline fragments; distinct = '
             '(newline, data); non-trivial = contains the first or last byte of the newline',
        explanation='MC_Split: the four identities of C16 hold for SplitKeep/SplitDrop on the complete spaces; the '
                    'real split_lines equals SplitKeep/SplitDrop on every enumerated and random input')

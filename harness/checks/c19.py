"""C19  Typed attributes validate atomically; equality is structural and congruent.

Model:   MC_Dom SetAtomic / EqCongruent on all small trees; Dom.tla SetAttr (type + choice
         table) and value equality of trees.
Enum.:   EVERY attribute name (own and forwarded, plus unknown names and slot-like names) of
         EVERY section kind x candidate values (right type allowed / right type not allowed /
         wrong types) at every position of small trees; unknown constructor keywords; for
         equality: two trees built by the same operations, then every single-field
         perturbation (typed assignment, in-place metadata change, options[...] change).
Dir. B:  Trace_Dom: raised <=> SetAttr rejects; the whole tree (all live trees) unchanged on
         rejection and exactly updated on acceptance; == / != = equality of the model trees;
         equal trees serialise to identical bytes.
"""
import copy
import random

from harness import domdriver, domgen, pools
from harness.abstraction import Catalog
from harness.checks import _dcommon

CHK = {'bytes': False, 'adopt': True, 'c06': False}
ATTRS = ['encoding', 'version', 'meta', 'meta_encoding', 'meta_format', 'preamble', 'preamble_encoding',
         'preamble_indent', 'preamble_line_endings', 'preamble_mimetype', 'diff', 'diff_encoding',
         'diff_line_endings', 'diff_type', 'bogus', 'Encoding', 'meta_', 'type', 'format', 'indent',
         'line_endings', 'mimetype', 'content', 'length']
VALUES = ['utf-8', 'dos', 'unix', 'mac', 'json', 'yaml', 'text/plain', 'text/html', 'text', 'binary', 'patch',
          '1.0', '2.0', '', 'x', 0, 4, -1, 10 ** 6, None, b'bytes', b'', {'k': 'v'}, {}, [], ['x'], 1.5, ('t',)]
# near misses of the allowed choices (fragments, other case, padding): every one must be refused
CHOICE_ATTRS = ['meta_format', 'preamble_line_endings', 'preamble_mimetype', 'diff_line_endings', 'diff_type', 'version']
NEAR = ['', 'j', 'js', 'son', 'on', 'JSON', 'json ', ' json', 'jsonjson', 'uni', 'nix', 'do', 'os', 'DOS', 'unix\n', 'unixdos',
        'tex', 'ext', 'text/', 'plain', 'text/plaintext/markdown', 'mark', 'bin', 'ary', 'Binary', 'textbinary', '1', '1.', '.0', '1.00',
        '1.01.0', 'text/plain;', 'text/x-markdown', 'Text/Plain', 'TEXT/MARKDOWN', 'text/Markdown', 'Unix', 'Dos', 'Text', 'Json']


def run(run, replay=None):
    rng = random.Random(run.seed)
    quick = run.tier == 'quick'
    _dcommon.mc_dom(run, ['SetAtomic', 'EqCongruent'], scope_quick=1, scope_thorough=1)
    cat = Catalog()
    traces = []
    n = 0
    # (1) every attribute x every candidate value at every container position of a small tree
    for rep in range(2 if quick else 6):
        for lvl_ci_fi in ((0, 0), (1, 0), (1, 1), (2, 1)):
            h = domdriver.History(cat)
            tid = 1
            h.new(**domgen.rand_container_attrs(rng, 0))
            h.addc(1, **domgen.rand_container_attrs(rng, 1))
            h.addf(1, 1, **domgen.rand_container_attrs(rng, 2))
            h.addc(1)
            h.addf(1, 2, meta={'p': 1})
            h.new()                                 # a bystander tree
            ci, fi = lvl_ci_fi
            combos = [(a, v) for a in ATTRS for v in VALUES]
            rng.shuffle(combos)
            for a, v in combos[:(90 if quick else 400)]:
                h.set(tid, ci, fi, a, v)
                run.count((ci, fi, a, repr(v)), nontrivial=True)
            traces.append(h.trace(n, CHK))
            n += 1
    # (1b) every choice-typed attribute x every near miss, at every container position
    for lvl_ci_fi in ((0, 0), (1, 0), (1, 1)):
        h = domdriver.History(cat)
        h.new(**domgen.rand_container_attrs(rng, 0))
        h.addc(1, **domgen.rand_container_attrs(rng, 1))
        h.addf(1, 1, **domgen.rand_container_attrs(rng, 2))
        ci, fi = lvl_ci_fi
        for a in CHOICE_ATTRS:
            for v in NEAR:
                h.set(1, ci, fi, a, v)
                run.count((ci, fi, a, repr(v)), nontrivial=True)
        traces.append(h.trace(n, CHK))
        n += 1
    # (2) unknown / invalid constructor keywords
    for _ in range(60 if quick else 800):
        h = domdriver.History(cat)
        bad = rng.choice([{'bogus': 1}, {'encoding': 5}, {'preamble_indent': 'x'}, {'meta': []}, {'diff': 'str'},
                          {'version': '2.0'}, {'preamble_mimetype': 'text/html'}, {'Encoding': 'utf-8'}, {}])
        good = domgen.rand_container_attrs(rng, 0)
        items = list(good.items()) + list(bad.items())
        rng.shuffle(items)
        h.new(**{k: v for k, v in items if not (k == 'diff')})
        h.new()
        lvl = rng.choice([1, 2])
        h.addc(len(h.trees), **(dict(domgen.rand_container_attrs(rng, 1), **(bad if lvl == 1 and 'version' not in bad else {}))))
        if lvl == 2 and len(h.trees[-1].changes):
            fa = dict(domgen.rand_container_attrs(rng, 2))
            fa.update({k: v for k, v in bad.items() if k not in ('version', 'preamble_indent', 'preamble_mimetype')})
            h.addf(len(h.trees), 1, **fa)
        traces.append(h.trace(n, CHK))
        run.count(('ctor', repr(sorted(bad))), nontrivial=bool(bad))
        n += 1
    # (3) equality: twins and single-field perturbations
    for _ in range(150 if quick else 1500):
        seed = rng.randrange(1 << 30)
        h = domdriver.History(cat)
        a = domgen.build_tree(h, random.Random(seed), via_attrs=True)
        b = domgen.build_tree(h, random.Random(seed), via_attrs=True)
        h.cmp(a, b)
        for _p in range(rng.choice([1, 2, 3])):
            t = h.trees[b - 1]
            ci = rng.randint(0, len(t.changes))
            fi = rng.randint(0, len(t.changes[ci - 1].files)) if ci else 0
            lvl = 0 if ci == 0 else (1 if fi == 0 else 2)
            r = rng.random()
            if r < 0.12:
                # change the SHAPE only: an extra trailing change / file (possibly an empty one)
                if ci and rng.random() < 0.6:
                    h.addf(b, ci, **(domgen.rand_container_attrs(rng, 2) if rng.random() < 0.5 else {}))
                else:
                    h.addc(b, **(domgen.rand_container_attrs(rng, 1) if rng.random() < 0.5 else {}))
            elif r < 0.5:
                attrs = domgen.rand_container_attrs(rng, lvl)
                if not attrs:
                    continue
                k = rng.choice(list(attrs))
                h.set(b, ci, fi, k, attrs[k])
            elif r < 0.75:
                h.mut(b, ci, fi, rng.choice(['k', 'a']), rng.choice([1, 'v', None]))
            elif r < 0.88:
                sec = rng.choice(['self', 'meta'] + (['pre'] if lvl < 2 else ['diff']))
                h.opt(b, ci, fi, sec, rng.choice(['encoding', 'custom']), rng.choice(['utf-16', 'latin-1']))
            else:
                # remove an option - in particular one for which the section class has a default
                sec, key = rng.choice([('meta', 'format'), ('self', 'encoding'), ('self', 'version'), ('meta', 'encoding'),
                                       ('pre' if lvl < 2 else 'diff', 'line_endings')])
                h.opt(b, ci, fi, sec, key, delete=True)
            h.cmp(a, b)
            h.cmp(b, a)
        h.cmp(a, a)
        traces.append(h.trace(n, CHK))
        run.count(('eq', seed), nontrivial=True)
        n += 1
    # (4) equality does not depend on the ORDER in which attributes were assigned (nor on how the tree came about:
    #     assignment after construction, constructor keywords, or parsing its own serialisation)
    for _ in range(40 if quick else 400):
        h = domdriver.History(cat)
        attrs0 = domgen.rand_container_attrs(rng, 0, rich=False)
        attrs1 = domgen.rand_container_attrs(rng, 1, rich=False)
        attrs2 = domgen.rand_container_attrs(rng, 2, rich=False)
        for order in (1, -1):
            h.new()
            t = len(h.trees)
            h.addc(t)
            h.addf(t, 1)
            for (ci, fi, attrs) in ((0, 0, attrs0), (1, 0, attrs1), (1, 1, attrs2)):
                items = list(attrs.items())[::order]
                if order == -1 and len(items) > 2:
                    rng.shuffle(items)
                for k, v in items:
                    h.set(t, ci, fi, k, copy.deepcopy(v))
        h.cmp(1, 2)
        h.cmp(2, 1)
        h.new(**copy.deepcopy(attrs0))                  # the same main section through constructor keywords
        t = len(h.trees)
        h.addc(t, **copy.deepcopy(attrs1))
        h.addf(t, 1, **copy.deepcopy(attrs2))
        h.cmp(1, t)
        e = h.ser(1)
        if e['status'] == 'ok':
            p = h.parse(bytes(e['bytes']))
            if p['status'] == 'ok':
                e2 = h.ser(len(h.trees))
                if e2['status'] == 'ok':
                    h.parse(bytes(e2['bytes']))         # two trees that both came from parsing the same bytes...
                    h.cmp(len(h.trees) - 1, len(h.trees))
        traces.append(h.trace(n, CHK))
        run.count(('order', n), nontrivial=True)
        n += 1
    run.sample({'attributes': ATTRS, 'values': [repr(v) for v in VALUES]})
    run.sample({'equality_history': [(e['k'], e['name'] or e['sec'], e['eq']) for e in traces[-1]['ev'] if e['k'] in ('cmp', 'set', 'mut', 'opt')]})
    can = run.tolerant(lambda: _dcommon.dom_canaries(traces, rng))
    run.judge('Trace_Dom', traces + can, cat.tables(), canary_ids=[c['id'] for c in can],
              describe=lambda tr: [(e['k'], e['ci'], e['fi'], e['name'], e['val']['t'], e['ok'], e['eq']) for e in tr['ev']][-6:])
    return run.finish(
        rule='(position, attribute, value) triples over all attribute names incl. unknown ones and 28 candidate '
             'values; invalid constructor keywords; twin trees with 1-3 single-field perturbations; distinct = the '
             'triple / keyword set / seed',
        explanation='each assignment / comparison is one TLC-validated event: raised iff SetAttr rejects, all trees '
                    'unchanged on rejection, == and != equal value equality of the model trees, equal trees serialise '
                    'identically')

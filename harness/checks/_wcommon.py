"""Shared pieces of the writer-side checks C01, C02 (and parts of C04, C06, C07)."""
from harness import pools, wgen
from harness.wdriver import run_writer

MCW_CFG = '''SPECIFICATION Spec
CONSTANTS MaxCalls = %d  CheckCuts = %s
CONSTANT Tables <- NoTables
%s
CHECK_DEADLOCK FALSE
'''


def mc_writer(run, invariants, props=(), quick_depths=((2, 'FALSE'), (3, 'FALSE')),
              thorough_depths=((3, 'FALSE'), (4, 'FALSE')), cuts=False):
    depths = quick_depths if run.tier == 'quick' else thorough_depths
    for d, c in depths:
        inv = ''.join('INVARIANT %s\n' % i for i in invariants) + ''.join('PROPERTY %s\n' % p for p in props)
        run.mc('MC_Writer', MCW_CFG % (d, c, inv), note='byte-level writer vs independent reader, <= %d accepted calls%s'
               % (d, ', every cut' if c == 'TRUE' else ''), timeout=3000)


def writer_sequences(run, rng, long_quick=False):
    """(ctor encoding, calls, origin) for C01/C02."""
    quick = run.tier == 'quick'
    out = []
    behs = wgen.accepted_paths(run, rng, 5 if quick else 7, 1, 0)
    if quick and len(behs) > 900:
        behs = rng.sample(behs, 900)
    if not quick and len(behs) > 12000:
        behs = rng.sample(behs, 12000)
    for b in behs:
        out.append((rng.choice(pools.CTOR_ENCODINGS), wgen.conc(b, rng, vary=True), 'exhaustive-path'))
    for calls in wgen.one_section_product(rng, quick):
        out.append((rng.choice(['utf-8', 'utf-8', 'utf-16', 'latin-1']), calls, 'one-section-product'))
    ws = wgen.walks(run, rng, 300 if quick else 8000, 12 if quick else 30, 2 if quick else 6)
    for b in ws:
        out.append((rng.choice(pools.CTOR_ENCODINGS), wgen.conc(b, rng), 'random-walk'))
    # very long first lines (beyond 4 KiB / 8 KiB windows), line endings left to detection: a handful of sequences
    # (affordable since Bytes!Find is no longer recursive: an 8 KiB line costs TLC about 15 s)
    longs = pools.LONG_TEXTS
    for k, t in enumerate(longs):
        out.append(('utf-8', [('preamble', {'text': t, 'indent': rng.choice([0, 4])}), ('change', {}), ('file', {}),
                              ('meta', {'metadata': {'path': 'long'}}),
                              ('diff', {'content': pools.LONG_DIFFS[k % len(pools.LONG_DIFFS)]})], 'long-first-line'))
    if long_quick:
        # one 64 KiB preamble whose CR LF straddles offset 65536 (block-wise implementations); only where the bytes
        # clause is judged: decoding 64 KiB back costs TLC too much, encoding and indenting them about half a minute
        out.append(('utf-8', [('preamble', {'text': 'z' * 65535 + '\r\nsecond line\r\nthird', 'indent': 4})], 'long-first-line-64k'))
    return out


def execute(run, seqs, cat, chk, selfcheck_every=0):
    traces = []
    for n, (enc, calls, origin) in enumerate(seqs):
        sc = bool(selfcheck_every) and n % selfcheck_every == 0
        tr, data, info = run_writer(n, enc, calls, cat, chk, selfcheck=sc)
        traces.append(tr)
        accepted = [e for e in tr['ev'] if e['k'] == 'call' and e['accepted']]
        key = (enc,) + tuple((e['c']['op'], bytes(e['c']['enc']['name']), e['c']['indent'], e['c']['le'],
                              len(e['c']['text']), len(e['c']['raw'])) for e in accepted)
        run.count(key, nontrivial=len(accepted) >= 2)
        if n % max(1, len(seqs) // 4) == 0:
            run.sample({'origin': origin, 'ctor_encoding': enc, 'bytes_written': len(data),
                        'calls': [(op, {k: (v if not isinstance(v, (bytes, str)) or len(v) < 30 else repr(v[:30]) + '...')
                                        for k, v in kw.items() if k != 'metadata'}) for op, kw in calls][:8]})
    return traces

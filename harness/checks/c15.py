"""C15  Newline and BOM handling depends on the codec, not on how its name is spelled.

Model:   Codec.tla NL(codec, kind) = EncNoBOM (never a byte-order mark by construction);
         MC_Writer RoundTrip already shows Detect(Prepare(..)) = declared kind for unit sizes
         1/2/4, LE/BE, BOM/none.
Enum.:   every text codec Python can look up that is stateless on the probes, x every
         spelling (canonical, registered aliases, upper / mixed case, '-'/'_' swaps) that can
         stand as an option value and is not purely numeric, x {unix, dos} x probe texts.
Dir. B:  Trace_Codec: get_newline_for_type / guess_line_endings (bytes and str) under the
         spelling = NL / Detect computed from the CANONICAL codec's descriptor.
         Trace_WriteRead (scope + read clauses): a section written under the spelling holds the
         text in that codec with a BOM-free newline, and reads back as the same text.
"""
import codecs
import copy
import encodings.aliases
import random
import re

from harness.abstraction import Catalog, OPAQUE, bl, cps
from harness.canary import writer_canaries
from harness.wdriver import run_writer

VALUE_RE = re.compile(r'^[A-Za-z0-9/._-]+$')
PROBES = ['a\nb', 'x\r\ny\r\n', 'no newline', '\n', 'l1\nl2\r\n', '\r\n']


def spellings():
    """canonical name -> set of spellings that resolve to it."""
    names = set(encodings.aliases.aliases.keys()) | set(encodings.aliases.aliases.values())
    names |= {'utf-8', 'utf-16', 'utf-32', 'utf-16-le', 'utf-16-be', 'utf-32-le', 'utf-32-be', 'latin-1', 'ascii',
              'utf-8-sig', 'U8', 'U16', 'U32', 'UTF', 'utf8', 'utf16', 'utf32', 'cp1252', 'cp037', 'shift_jis'}
    out = {}
    for n in sorted(names):
        for v in {n, n.upper(), n.title(), n.replace('_', '-'), n.replace('-', '_'), n.replace('_', '-').upper(),
                  # the codec registry also folds runs of punctuation and punctuation at either end
                  n.replace('_', '__'), n.replace('_', '--'), n + '_', n.replace('_', '/'), n.replace('_', '.-')}:
            if not VALUE_RE.match(v) or v.isdigit() or re.match(r'^-?[0-9_]+$', v):
                continue
            try:
                info = codecs.lookup(v)
            except LookupError:
                continue
            if not getattr(info, '_is_text_encoding', True):
                continue
            cn = info.name
            if cn in OPAQUE or cn.replace('_', '-') in OPAQUE:
                continue
            out.setdefault(cn, set()).add(v)
    return out


def _encodable(ch, name):
    try:
        return len(ch.encode(name)) > 0 and ch.encode(name).decode(name) == ch
    except Exception:       # noqa
        return False


def stateless(cn):
    """Is the canonical codec a per-character table on the probes (and BOM only at the start)?"""
    try:
        for p in PROBES + ['abcXYZ 019\r\n']:
            whole = p.encode(cn)
            parts = b''.join(ch.encode(cn) for ch in p)
            bom = 'a'.encode(cn)[:-len('a'.encode(cn)) // 1] if False else b''
            one = 'a'.encode(cn)
            two = 'aa'.encode(cn)
            unit = len(two) - len(one)
            bom = one[:len(one) - unit]
            if bom:
                parts = bom + b''.join(ch.encode(cn)[len(bom):] for ch in p)
            if whole != parts or whole.decode(cn) != p:
                return False
        return True
    except Exception:       # noqa
        return False


def run(run, replay=None):
    from pydiffx.utils.text import get_newline_for_type, guess_line_endings
    rng = random.Random(run.seed)
    quick = run.tier == 'quick'
    cat = Catalog()
    table = spellings()
    canon = sorted(cn for cn in table if stateless(cn))
    run.notes['codecs'] = len(canon)
    run.notes['codecs_excluded_as_not_stateless'] = sorted(set(table) - set(canon))[:40]
    cases = []
    traces = []
    cid = 0
    nsp = 0
    for cn in canon:
        sp = sorted(table[cn])
        if quick and len(sp) > 4 and cn not in ('utf-16', 'utf-32', 'utf-8-sig', 'utf-8'):
            sp = [sp[0]] + rng.sample(sp[1:], 3)        # BOM-emitting codecs: always every spelling
        for name in sp:
            nsp += 1
            desc = cat.desc(name)
            for kind in ('unix', 'dos'):
                for probe in (PROBES[:3] if quick else PROBES):
                    c = {'id': cid, 'codec': desc, 'kind': kind, 'nl': [], 'probe': cps(probe), 'enc': [],
                         'gkind': '', 'gnl': [], 'skind': '', 'snl': [], 'exc': ''}
                    try:
                        c['nl'] = bl(get_newline_for_type(kind, encoding=name))
                        enc = probe.encode(name)
                        c['enc'] = bl(enc)
                        gk, gn = guess_line_endings(enc, encoding=name)
                        c['gkind'], c['gnl'] = gk, bl(gn)
                        sk, sn = guess_line_endings(probe)
                        c['skind'], c['snl'] = sk, cps(sn)
                    except Exception as e:       # noqa
                        c['exc'] = type(e).__name__
                    cases.append(c)
                    cid += 1
                    run.count((name, kind, probe), nontrivial=name != cn)
            # a two-line text that ends, unterminated, in a non-ASCII character of this codec (if it has one)
            extra = [ch for ch in 'éæÊかトきßяω中ł' if _encodable(ch, name)]
            tail = 'line one\nz' + (extra[nsp % len(extra)] if extra else 'q')
            # a section written and read back under this spelling
            calls = [('preamble', {'text': tail, 'indent': rng.choice([2, 4]), 'line_endings': rng.choice([None, 'unix', 'dos'])}),
                     ('meta', {'metadata': {'k': 'v'}}), ('change', {}),
                     ('preamble', {'text': rng.choice(PROBES), 'encoding': name, 'indent': rng.choice([0, 2, 4])}),
                     ('file', {}), ('meta', {'metadata': {'k': 'v'}, 'encoding': name}),
                     ('diff', {'content': rng.choice(PROBES).encode(name), 'encoding': name,
                               'line_endings': rng.choice([None, 'unix', 'dos'])})]
            # content whose first bytes look like a byte-order mark although, in THIS codec, they are ordinary characters
            for mark in (b'\xff\xfe', b'\xfe\xff', b'\xef\xbb\xbf', b'\xff\xfe\x00\x00', b'\x00\x00\xfe\xff'):
                try:
                    lk = mark.decode(name)
                    if not lk or lk.encode(name) != mark or '\n' in lk or '\r' in lk:
                        continue
                except Exception:       # noqa
                    continue
                cat.note(lk)
                calls += [('change', {}),
                          ('preamble', {'text': lk + 'first\nsecond line\n', 'encoding': name, 'indent': 4,
                                        'line_endings': rng.choice([None, 'unix', 'dos'])}),
                          ('file', {}), ('meta', {'metadata': {'k': lk}, 'encoding': name}),
                          ('diff', {'content': (lk + 'a\nb\n').encode(name), 'encoding': name})]
                if rng.random() < 0.6:
                    break
            tr, data, info = run_writer('w%d' % cid, name, calls, cat,
                                        {'order': False, 'bytes': False, 'read': True, 'scope': True})
            traces.append(tr)
    run.notes['spellings'] = nsp
    run.sample({'codec': canon[len(canon) // 2], 'spellings': sorted(table[canon[len(canon) // 2]])})
    run.sample({'codec': 'utf-16', 'spellings': sorted(table.get('utf-16', []))})
    def _mk_canaries():
        can = []
        pool = [c for c in cases if c['exc'] == '']
        for k, c in enumerate(rng.sample(pool, 8)):
            z = copy.deepcopy(c)
            z['canary_of'] = z['id']
            z['id'] = 'canary-%d' % k
            if k % 2:
                z['nl'] = [239, 187, 191] + z['nl']
            else:
                z['gkind'] = 'dos' if z['gkind'] == 'unix' else 'unix'
            can.append(z)
        return can
    can = run.tolerant(_mk_canaries)
    run.judge('Trace_Codec', cases + can, cat.tables(), canary_ids=[c['id'] for c in can],
              describe=lambda c: {'codec': c['codec'], 'kind': c['kind'], 'nl': c['nl']})
    wcan = run.tolerant(lambda: writer_canaries(traces, rng, want=('read',), count=6))
    run.judge('Trace_WriteRead', traces + wcan, cat.tables(), canary_ids=[c['id'] for c in wcan],
              describe=lambda tr: bytes(tr['ev'][0]['enc']['name']).decode())
    run.assumptions += ['Python\'s alias table and per-character encodings of the canonical codec are trusted',
                        'codecs that are not per-character tables on the probes (stateful, escape-based) are outside C15']
    return run.finish(
        rule='every stateless text codec x every spelling (aliases, case, -/_ variants) x {unix, dos} x probe texts; '
             'distinct = (spelling, kind, probe); non-trivial = the spelling is not the canonical name',
        explanation='NL / Detect of Codec.tla / Content.tla computed from the canonical codec decide the helper results '
                    'for every spelling; one written-and-read-back file per spelling judged by Writer.tla')

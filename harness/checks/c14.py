"""C14  Unified-diff hunk parser reports exact hunk geometry or a positioned error.

Model:   MC_Hunks - the per-line machine = declarative geometry (GeoHunk) on ALL one-hunk
         descriptions (body <= 5 over C/D/I/M) and all pairs of short hunks, with and
         without garbage tolerance, garbage between hunks, every truncation / foreign line /
         interrupting header; the machine is total over all line-kind sequences.
Dir. A:  Gen_Hunks - TLC walks the machine over 18 concrete line forms with the history in
         the state (live-prefix tree); every terminal history is extended by each symbol
         once; hunks with generated geometry (random starts/counts, payloads that look like
         headers) and their single-point damages; random long diffs; the empty list.
Dir. B:  Trace_Hunks: result (every field) or MalformedHunkError(line, line_num) = Hunks.tla,
         which classifies the raw bytes itself; any other exception rejects.
"""
import copy
import random

from harness import gen

M = b'\\ No newline at end of file'
SYMS = [b'@@ -1 +1 @@', b'@@ -3,2 +4 @@ def f():', b'@@ -0,0 +1 @@', b'@@ -5 +5,0 @@', b'@@ -2,2 +2,2 @@',
        b'-x', b'+y', b' z', M, b'@@ junk', b'', b'text', b'-- a/file', b'++ b/file', b' @@ -1 +1 @@',
        M + b' \r', b'@@ -1 +1', b'\\ other']
NOLINE = -100


def side(d):
    return {'start': d['start_line'], 'num': d['num_lines'],
            'first': NOLINE if d['first_changed_line'] is None else d['first_changed_line'],
            'last': NOLINE if d['last_changed_line'] is None else d['last_changed_line'],
            'changed': d['num_lines_changed']}


def observe(cid, lines, ig):
    from pydiffx.errors import MalformedHunkError
    from pydiffx.utils.unified_diffs import get_unified_diff_hunks
    res = {'err': 'none', 'line': 0, 'lineok': True, 'hunks': [], 'nproc': 0, 'tdel': 0, 'tins': 0}
    try:
        r = get_unified_diff_hunks(list(lines), ignore_garbage=ig)
    except MalformedHunkError as e:
        res['err'] = 'hunk'
        res['line'] = e.line_num if isinstance(e.line_num, int) else -1
        res['lineok'] = isinstance(e.line_num, int) and 1 <= e.line_num <= len(lines) and e.line == lines[e.line_num - 1]
    except Exception as e:       # noqa
        res['err'] = 'other:' + type(e).__name__
    else:
        res['hunks'] = [{'o': side(h['orig']), 'm': side(h['modified']), 'pre': h['lines_of_context_pre'],
                         'post': h['lines_of_context_post'],
                         'ctx': {'has': h['context'] is not None, 'b': list(h['context'] or b'')}}
                        for h in r['hunks']]
        res['nproc'] = r['num_processed_lines']
        res['tdel'] = r['total_deletes']
        res['tins'] = r['total_inserts']
    return {'id': cid, 'lines': [list(l) for l in lines], 'ignore': bool(ig), 'res': res}


def gen_hunk(rng):
    """A well-formed hunk with known geometry: (lines, ndel, nins)."""
    body = []
    n = rng.choice([0, 1, 2, 3, 5, 8])
    for _ in range(n):
        body.append(rng.choice('CCDDII'))
    if rng.random() < 0.3:
        body.insert(rng.randrange(len(body) + 1), 'M')
    oc = sum(1 for k in body if k in 'CD')
    mc = sum(1 for k in body if k in 'CI')
    os_ = rng.choice([0, 1, 1, 2, 10, 999, 123456]) if oc else rng.choice([0, 5])
    ms = rng.choice([0, 1, 1, 3, 10, 1000, 654321]) if mc else rng.choice([0, 5])
    def rng_s(start, count):
        if count == 1 and rng.random() < 0.6:
            return b'%d' % start
        return b'%d,%d' % (start, count)
    hdr = b'@@ -' + rng_s(max(os_, 0), oc) + b' +' + rng_s(max(ms, 0), mc) + b' @@' + rng.choice([b'', b'', b' ctx', b' ', b' @@ -1 +1 @@'])
    pay = {'C': [b' ', b' ctx', b' @@ -1 +1 @@', b' --- a', b'  '], 'D': [b'-', b'-old', b'-- a/file', b'--- x', b'-@@ -1 +1 @@'],
           'I': [b'+', b'+new', b'++ b/file', b'+++ y', b'+\\ No newline at end of file'], 'M': [M, M + b'  ', M + b'\r']}
    lines = [hdr] + [rng.choice(pay[k]) for k in body]
    return lines


def run(run, replay=None):
    rng = random.Random(run.seed)
    quick = run.tier == 'quick'
    geo = ('SPECIFICATION Spec\nCONSTANTS MaxBody = %d MaxLines = 0\nINVARIANT GeometryOne\nINVARIANT GeometryTwo\n'
           'INVARIANT GarbageBetween\nINVARIANT Damage\nCHECK_DEADLOCK FALSE\n')
    run.mc('MC_Hunks', geo % (5 if quick else 6), note='machine = declarative geometry on all descriptions; damages', workers=2)
    run.mc('MC_Hunks', 'SPECIFICATION Spec\nCONSTANTS MaxBody = 1 MaxLines = %d\nINVARIANT Total\nPROPERTY MarkerNeutral\n'
                       'CHECK_DEADLOCK FALSE\n' % (6 if quick else 8), note='machine total over all line-kind sequences')
    cases = []
    cid = 0
    cases.append(observe(cid, [], False)); cid += 1
    cases.append(observe(cid, [], True)); cid += 1
    plans = [(4, 18), (5, 9)] if quick else [(4, 18), (5, 12), (6, 9)]
    for ig in (False, True):
        for ml, ns in plans:
            behs = gen.behaviours('Gen_Hunks', {'MaxLines': ml, 'NSyms': ns, 'Ignore': 'TRUE' if ig else 'FALSE'},
                                  run=run, timeout=1200)
            if len(behs) > (40000 if quick else 150000):
                behs = rng.sample(behs, 40000 if quick else 150000)
            for b in behs:
                lines = [SYMS[k - 1] for k in b['h']]
                cases.append(observe(cid, lines, ig)); cid += 1
                run.count((tuple(b['h']), ig), nontrivial=any(k <= 5 for k in b['h']))
                if not b['live'] and rng.random() < (0.15 if quick else 0.25):
                    for k in range(1, 19):
                        cases.append(observe(cid, lines + [SYMS[k - 1]], ig)); cid += 1
                        run.evaluations += 1
    # generated geometry + single-point damages + long random diffs
    for _ in range(600 if quick else 20000):
        lines = []
        for _h in range(rng.choice([1, 1, 2, 3, 6])):
            if lines and rng.random() < 0.3:
                lines += [rng.choice([b'diff --git a b', b'', b'Index: x', b'--- a/x', b'+++ b/x', b'@@ garbage'])]
            lines += gen_hunk(rng)
        ig = rng.random() < 0.5
        cases.append(observe(cid, lines, ig)); cid += 1
        run.count((tuple(lines), ig), nontrivial=True)
        kind = rng.random()
        if lines:
            p = rng.randrange(len(lines))
            if kind < 0.33:
                dmg = lines[:p] + lines[p + 1:]
            elif kind < 0.66:
                dmg = lines[:p] + [lines[p]] + lines[p:]
            else:
                dmg = lines[:p] + [rng.choice(SYMS)] + lines[p + 1:]
            cases.append(observe(cid, dmg, ig)); cid += 1
            run.count((tuple(dmg), ig, 'damaged'), nontrivial=True)
    run.sample({'lines': [l.decode('latin-1') for l in lines], 'ignore_garbage': ig, 'result': cases[-2]['res']})
    run.sample({'lines': [bytes(l).decode('latin-1') for l in cases[50]['lines']], 'ignore_garbage': cases[50]['ignore'],
                'result': cases[50]['res']})
    def _mk_canaries():
        can = []
        pool = [c for c in cases if c['res']['hunks']]
        for k, c in enumerate(rng.sample(pool, min(10, len(pool)))):
            z = copy.deepcopy(c)
            z['canary_of'] = z['id']
            z['id'] = 'canary-%d' % k
            h = z['res']['hunks'][0]
            [lambda: h.__setitem__('pre', h['pre'] + 1), lambda: z['res'].__setitem__('tins', z['res']['tins'] + 1),
             lambda: z['res'].__setitem__('nproc', z['res']['nproc'] + 1), lambda: h['o'].__setitem__('start', h['o']['start'] + 1),
             lambda: h['m'].__setitem__('changed', h['m']['changed'] + 1)][k % 5]()
            can.append(z)
        return can
    can = run.tolerant(_mk_canaries)
    v = run.judge('Trace_Hunks', cases + can, None, canary_ids=[c['id'] for c in can], with_tables=False,
                  describe=lambda c: {'lines': [bytes(l).decode('latin-1') for l in c['lines']], 'ignore': c['ignore'],
                                      'res': c['res']})
    run.notes['spec_hunk_errors'] = sum(1 for c in cases if v[c['id']][2] == 'hunk-error')
    run.notes['spec_results'] = sum(1 for c in cases if v[c['id']][2] == 'result')
    return run.finish(
        rule='all live prefixes of the hunk machine over 18 concrete line forms to the bound (TLC), each terminal '
             'prefix + every form, generated hunks with random geometry and their single-point damages, the empty '
             'list; distinct = (lines, ignore_garbage); non-trivial = contains a hunk header',
        explanation='MC_Hunks: machine = declarative geometry for all small descriptions; every real call judged by '
                    'TLC against the machine, raw lines classified by the specification')

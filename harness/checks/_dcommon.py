"""Shared pieces of the object-model checks C05, C06, C18, C19."""
import copy

MCD_CFG = ('SPECIFICATION Spec\nCONSTANT Tables <- NoTables\nCONSTANT Scope = %d\n%s'
           'CHECK_DEADLOCK FALSE\n')


def mc_dom(run, invariants, scope_quick=1, scope_thorough=2):
    sc = scope_quick if run.tier == 'quick' else scope_thorough
    run.mc('MC_Dom', MCD_CFG % (sc, ''.join('INVARIANT %s\n' % i for i in invariants)), timeout=3000,
           note='object model on all trees of small scope %d' % sc)


def dom_canaries(traces, rng, count=10):
    """Corrupt Trace_Dom traces: a snapshot field, a serialisation byte, an ok flag, an eq flag."""
    out = []
    pool = [t for t in traces if len(t['ev']) >= 3]
    rng.shuffle(pool)
    n = 0
    for tr in pool:
        if len(out) >= count:
            break
        z = copy.deepcopy(tr)
        z['canary_of'] = z['id']
        z['id'] = 'canary-%d' % n
        kind = n % 4
        n += 1
        evs = z['ev']
        if kind == 0:
            # a snapshot that differs in one option / content of one tree
            # (a parse event's snapshot is ADOPTED in adopt mode, so corrupting it there proves nothing)
            cand = [e for e in evs if e['snaps'] and not (z['chk']['adopt'] and e['k'] == 'parse')]
            if not cand:
                continue
            e = rng.choice(cand)
            s = e['snaps'][-1]
            s['opts'] = s['opts'][1:] if s['opts'] else [{'k': [120], 's': [49], 't': 'int'}]
        elif kind == 1:
            cand = [e for e in evs if e['k'] == 'ser' and e['status'] == 'ok' and z['chk']['bytes']]
            if not cand:
                cand = [e for e in evs if e['k'] == 'ser' and e['status'] == 'ok' and e['check_same']]
                if not cand:
                    continue
                e = rng.choice(cand)
                e['same_as'] = e['same_as'][:-1] + [(e['same_as'][-1] + 1) % 256]
            else:
                e = rng.choice(cand)
                p = rng.randrange(len(e['bytes']))
                e['bytes'][p] = (e['bytes'][p] + 1) % 256
        elif kind == 2:
            cand = [e for e in evs if e['k'] in ('set', 'new', 'addc', 'addf') and not z['chk']['adopt']]
            if not cand:
                continue
            e = rng.choice(cand)
            e['ok'] = not e['ok']
        else:
            cand = [e for e in evs if e['k'] == 'cmp']
            if not cand:
                cand = [e for e in evs if e['k'] == 'ser' and e['status'] == 'ok']
                if not cand:
                    continue
                rng.choice(cand)['status'] = 'other:TypeError'
            else:
                e = rng.choice(cand)
                e['eq'] = not e['eq']
                e['ne'] = not e['ne']
        out.append(z)
    return out

"""Shared pieces of the reader-side checks."""
import copy

from harness import fgen, gen, pools, rdriver

MCR_CFG = '''SPECIFICATION %s
CONSTANTS MaxTok = %d  RawLen = %d
CONSTANT Tables <- NoTables
%s
CHECK_DEADLOCK FALSE
'''


def mc_reader(run, invariants, props=('Progress',), quick=(3, 0), thorough=(4, 5), fair=False):
    mt, rl = quick if run.tier == 'quick' else thorough
    inv = ''.join('INVARIANT %s\n' % i for i in invariants) + ''.join('PROPERTY %s\n' % p for p in props)
    run.mc('MC_Reader', MCR_CFG % ('FairSpec' if fair else 'Spec', mt, rl, inv), xmx='10g', timeout=3000,
           note='stepwise Reader.tla over all files of <= %d tokens%s' % (mt, (' and all byte strings <= %d' % rl) if rl else ''))


def legal_paths(run, maxlen):
    return [b['ids'] for b in gen.behaviours('Gen_Sections', {'MaxLen': maxlen, 'Extend': 'FALSE'},
                                             invariant='EmitAll', run=run)]


def note_pools(cat):
    for t in pools.TEXTS:
        cat.note(t)
    for m in pools.METAS:
        cat.note_json(m)


def reader_canaries(cases, rng, count=10):
    out = []
    pool = [c for c in cases if c['mode'] == 'exact' and c['recs']]
    rng.shuffle(pool)
    for n, c in enumerate(pool[:count]):
        k = copy.deepcopy(c)
        k['canary_of'] = k['id']
        k['id'] = 'canary-%d' % n
        kind = n % 4
        if kind == 0:
            cand = [r for r in k['recs'] if r['opts']]
            if cand:
                r = rng.choice(cand)
                r['opts'].pop(rng.randrange(len(r['opts'])))
            else:
                k['recs'].pop()
        elif kind == 1:
            k['recs'].pop(rng.randrange(len(k['recs'])))
        elif kind == 2:
            rng.choice(k['recs'])['line'] += 1
        else:
            if k['end'] == 'done':
                k['end'] = 'parse'
                k['line'] = 0
            else:
                k['end'] = 'done'
        out.append(k)
    return out

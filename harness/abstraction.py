"""Abstraction functions: concrete Python values <-> the values of the TLA+ spec.

This is the only Python that touches values.  It never computes an expected
result for a property: it only re-expresses arguments and observations
(text -> code points, bytes -> ints, JSON -> tagged tree, options -> key/value
records, exceptions -> families).
"""
import codecs
import json
import re

ARITH = {
    'utf-8': 'utf-8', 'utf-8-sig': 'utf-8-sig',
    'utf-16': 'utf-16', 'utf-16-le': 'utf-16-le', 'utf-16-be': 'utf-16-be',
    'utf-32': 'utf-32', 'utf-32-le': 'utf-32-le', 'utf-32-be': 'utf-32-be',
    'iso8859-1': 'latin-1', 'ascii': 'ascii',
}
# valid Python text codecs that are not per-character tables (stateful or
# context dependent): outside the specified zone
OPAQUE = {'utf-7', 'idna', 'punycode', 'unicode-escape', 'raw-unicode-escape', 'undefined',
          'mbcs', 'oem', 'hz', 'iso2022-jp', 'iso2022-jp-1', 'iso2022-jp-2', 'iso2022-jp-2004',
          'iso2022-jp-3', 'iso2022-jp-ext', 'iso2022-kr', 'utf-16-ex', 'unicode_escape',
          'raw_unicode_escape', 'utf_7'}

NOCODEC = {'fam': 'none', 'tid': ''}
NOENC = {'given': False, 'name': [], 'codec': NOCODEC}


def cps(s):
    return [ord(c) for c in s]


def bl(b):
    return list(b)


def canon_codec(name):
    """Descriptor {fam, tid} of a codec name as spelled (trusted: Python's registry)."""
    if not isinstance(name, str):
        return {'fam': 'unknown', 'tid': ''}
    try:
        info = codecs.lookup(name)
    except (LookupError, TypeError, ValueError, UnicodeError):
        return {'fam': 'unknown', 'tid': ''}
    if not getattr(info, '_is_text_encoding', True):
        return {'fam': 'unknown', 'tid': ''}
    cn = info.name
    if cn in ARITH:
        return {'fam': ARITH[cn], 'tid': ''}
    if cn in OPAQUE or cn.replace('_', '-') in OPAQUE:
        return {'fam': 'opaque', 'tid': ''}
    return {'fam': 'table', 'tid': cn}


class Catalog(object):
    """Collects the characters and table codecs of a batch; builds Tables."""

    def __init__(self):
        self.chars = set(range(128))
        self.tids = set()

    def note(self, s):
        if isinstance(s, str):
            self.chars.update(ord(c) for c in s)

    def note_json(self, v):
        if isinstance(v, float) and v == v and v not in (float('inf'), float('-inf')):
            if not hasattr(self, 'floats'):
                self.floats = set()
            self.floats.add(repr(v))          # the literal json.dumps writes for it
        if isinstance(v, str):
            self.note(v)
        elif isinstance(v, dict):
            for k, x in v.items():
                self.note(k)
                self.note_json(x)
        elif isinstance(v, (list, tuple)):
            for x in v:
                self.note_json(x)

    def desc(self, name):
        d = canon_codec(name)
        if d['fam'] == 'table':
            self.tids.add(d['tid'])
        return d

    def enc(self, name):
        if name is None:
            return NOENC
        nb = name.encode('utf-8', 'surrogatepass') if isinstance(name, str) else str(name).encode()
        return {'given': True, 'name': bl(nb), 'codec': self.desc(name)}

    def tables(self):
        # number literals that are not in canonical form: what the platform's float() makes of them (trusted)
        lits = set(EXOTIC_FLOAT_LITERALS) | set(getattr(self, 'floats', ()))
        flt = []
        for lit in sorted(lits):
            try:
                flt.append({'l': cps(lit), 'r': cps(repr(float(lit)))})
            except ValueError:
                pass
        out = {'_': {'enc': {}, 'dec': {}, 'flt': flt}}
        for tid in sorted(self.tids):
            enc = {}
            dec = {}
            for cp in sorted(self.chars):
                try:
                    b = chr(cp).encode(tid)
                except (UnicodeError, LookupError):
                    continue
                enc[str(cp)] = bl(b)
                try:
                    back = b.decode(tid)
                except UnicodeError:
                    continue
                if len(back) == 1 and 1 <= len(b) <= 4:
                    key = '-'.join(str(x) for x in b)
                    dec.setdefault(key, ord(back))
            out[tid] = {'enc': enc, 'dec': dec}
        return out


# literals foreign producers write: exponents, upper-case E, trailing zeros, more digits than a double holds, overflow
EXOTIC_FLOAT_LITERALS = ['1e999', '-1e999', '1E5', '2.50', '1.0e-7', '12345678901234567890.0', '0.1e1', '5e-324', '1e+16',
                         '1e-05', '-0.0', '0.0001', '0.00001', '123456789.123456789', '1e5', '6.02E23', '-2.5E-3']
_CANON_FLOAT = re.compile(r'^-?(0|[1-9][0-9]*)\.([0-9]+)$')


def canonical_float(r):
    """The decimal fractions JsonParse.tla models: shortest round-trip form, at most 15 significant digits."""
    m = _CANON_FLOAT.match(r)
    if not m:
        return False
    ip, fp = m.group(1), m.group(2)
    if len(ip) + len(fp) > 15 or (fp.endswith('0') and fp != '0'):
        return False
    if ip == '0' and fp != '0' and len(fp) - len(fp.lstrip('0')) >= 4:
        return False
    return True


def jabs(v):
    """Abstract JSON value [t, s, n, neg, items]; object members in key order."""
    z = {'t': '', 's': [], 'n': 0, 'neg': False, 'items': []}
    if v is None:
        z['t'] = 'null'
    elif v is True:
        z['t'] = 'true'
    elif v is False:
        z['t'] = 'false'
    elif isinstance(v, int):
        if abs(v) >= 2 ** 31:
            z['t'] = 'bigint'
        else:
            z['t'] = 'int'
            z['n'] = abs(v)
            z['neg'] = v < 0
    elif isinstance(v, float):
        if v != v:
            z['t'] = 'other:nan'          # not a value of the model (NaN is not equal to itself)
        else:
            z['t'] = 'float'
            z['s'] = cps(repr(v))         # 'inf' / '-inf' for the non-finite ones
    elif isinstance(v, str):
        z['t'] = 'str'
        z['s'] = cps(v)
    elif isinstance(v, (list, tuple)):
        z['t'] = 'arr'
        z['items'] = [jabs(x) for x in v]
    elif isinstance(v, dict):
        z['t'] = 'obj'
        if all(isinstance(k, str) for k in v):
            z['items'] = [{'k': cps(k), 'v': jabs(v[k])} for k in sorted(v)]
        else:
            z['t'] = 'badkeys'
    else:
        z['t'] = 'other:' + type(v).__name__
    return z


def jconc(z):
    """Inverse of jabs for values generated abstractly."""
    t = z['t']
    if t == 'null':
        return None
    if t == 'true':
        return True
    if t == 'false':
        return False
    if t == 'int':
        return -z['n'] if z['neg'] else z['n']
    if t == 'float':
        return float(''.join(chr(c) for c in z['s']))
    if t == 'str':
        return ''.join(chr(c) for c in z['s'])
    if t == 'arr':
        return [jconc(x) for x in z['items']]
    if t == 'obj':
        return {''.join(chr(c) for c in it['k']): jconc(it['v']) for it in z['items']}
    raise ValueError(t)


def optrec(k, v):
    """An option as the reader reported it: key bytes, str(value) bytes, int flag."""
    isint = isinstance(v, int) and not isinstance(v, bool)
    return {'k': bl(k.encode('utf-8', 'surrogatepass')),
            's': bl(str(v).encode('utf-8', 'surrogatepass')),
            'i': isint}


def absopts(options):
    return [optrec(k, options[k]) for k in sorted(options, key=lambda x: x.encode('utf-8', 'surrogatepass'))]


NULLV = jabs(None)


def absrec(r):
    """Abstract a record yielded by DiffXReader (public fields only)."""
    d = {'id': r['section'], 'level': r['level'], 'type': r['type'], 'line': r['line'],
         'opts': absopts(r['options']), 'kind': 'none', 'text': [], 'raw': [], 'meta': NULLV}
    if 'text' in r:
        if isinstance(r['text'], str):
            d['kind'] = 'text'
            d['text'] = cps(r['text'])
        else:
            d['kind'] = 'bytes'
            d['raw'] = bl(r['text'])
    elif 'diff' in r:
        if isinstance(r['diff'], bytes):
            d['kind'] = 'bytes'
            d['raw'] = bl(r['diff'])
        else:
            d['kind'] = 'text'
            d['text'] = cps(r['diff'])
    elif 'metadata' in r:
        d['kind'] = 'meta'
        d['meta'] = jabs(r['metadata'])
    return d


def exc_family(e):
    from pydiffx import errors
    if isinstance(e, errors.DiffXParseError):
        return 'parse'
    if isinstance(e, errors.DiffXSectionOrderError):
        return 'order'
    if isinstance(e, errors.DiffXContentError):
        return 'content'
    if isinstance(e, errors.DiffXUnknownOptionError):
        return 'unknown_option'
    if isinstance(e, errors.DiffXOptionValueError):
        return 'option'
    if isinstance(e, errors.BaseDiffXError):
        return 'diffx'
    if isinstance(e, errors.MalformedHunkError):
        return 'hunk'
    return 'other:' + type(e).__name__

"""Canaries: deliberately corrupted copies of real traces.  TLC must reject
every one of them on every run; an accepted canary means the trace
specification no longer binds (machinery failure, exit 2)."""
import copy


def _clone(tr, n):
    c = copy.deepcopy(tr)
    c['canary_of'] = c['id']
    c['id'] = 'canary-%d' % n
    return c


def _unknown_container(tr):
    """Trace_WriteRead does not judge the read-back of a file in which a container declares a name that is no
    codec (outside C01's quantifier): a corrupted read event of such a trace is not a usable canary."""
    for e in tr['ev']:
        enc = e.get('enc') if e['k'] == 'init' else (e['c'].get('enc') if e['k'] == 'call' and e.get('accepted')
                                                       and e['c']['op'] in ('change', 'file') else None)
        if enc and enc.get('given') and enc['codec']['fam'] == 'unknown':
            return True
    return False


def writer_canaries(traces, rng, want=('order', 'bytes', 'read'), count=12):
    """Corrupt Trace_WriteRead traces in ways the selected clauses must catch."""
    out = []
    pool = [t for t in traces if len(t['ev']) > 2]
    rng.shuffle(pool)
    n = 0
    for tr in pool:
        if len(out) >= count:
            break
        kinds = []
        calls = [k for k, e in enumerate(tr['ev']) if e['k'] == 'call']
        acc = [k for k in calls if tr['ev'][k]['accepted']]
        rej = [k for k in calls if not tr['ev'][k]['accepted']]
        if 'order' in want and tr['chk']['order']:
            if calls:
                kinds.append('flip')
            if rej:
                kinds.append('rejwrote')
        if 'bytes' in want and tr['chk']['bytes'] and acc:
            kinds.append('byte')
        if 'read' in want and tr['chk']['read'] and tr['ev'][-1]['k'] == 'read' and tr['ev'][-1]['recs'] \
                and not _unknown_container(tr):
            kinds += ['dropopt', 'droprec', 'line']
        if not kinds:
            continue
        kind = kinds[n % len(kinds)]
        c = _clone(tr, n)
        if kind == 'flip':
            k = rng.choice(calls)
            c['ev'][k]['accepted'] = not c['ev'][k]['accepted']
        elif kind == 'rejwrote':
            k = rng.choice(rej)
            c['ev'][k]['appended'] = [35]
        elif kind == 'byte':
            k = rng.choice(acc)
            a = c['ev'][k]['appended']
            p = rng.randrange(len(a))
            a[p] = (a[p] + 1) % 256
            c['ev'][k]['twin'] = list(a)
        elif kind == 'dropopt':
            recs = c['ev'][-1]['recs']
            cand = [r for r in recs if r['opts']]
            if not cand:
                continue
            r = rng.choice(cand)
            r['opts'].pop(rng.randrange(len(r['opts'])))
        elif kind == 'droprec':
            recs = c['ev'][-1]['recs']
            recs.pop(rng.randrange(len(recs)))
        elif kind == 'line':
            recs = c['ev'][-1]['recs']
            rng.choice(recs)['line'] += 1
        c['canary_kind'] = kind
        out.append(c)
        n += 1
    return out
